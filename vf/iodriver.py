"""Harness side of the in-process protocol runs (C20).

The generated spec's python block imports DRIVER from here.  The fuzzer-side party reports
every send() to the driver; the driver plays ALL external parties: it follows a script
(valid reply / wrong type / constraint-violating / truncated-then-silent per expected remote
message) and a delivery schedule (chunk sizes, virtual arrival times), and it owns the clock
of fandango.io.packetparser and fandango.evolution.algorithm (FakeTime): time only advances
when the code under test sleeps, and remote data arrives exactly at the scheduled virtual
instants.  Nothing here depends on the wall clock or on OS threads.
"""

from __future__ import annotations

from typing import Any, Optional


class Driver:
    def __init__(self) -> None:
        self.reset(None)

    def reset(self, plan: Optional[dict[str, Any]]) -> None:
        self.plan = plan
        self.now = 0.0
        self.sent: list[tuple[str, Optional[str], str]] = []  # (sender, recipient, text) reported by send()
        self.delivered: dict[str, str] = {}  # external party -> all data it delivered so far (concatenated)
        self.delivery_log: list[tuple[float, str, str, str]] = []
        self.pending: list[tuple[float, str, str, str]] = []  # (time, sender, receiver, chunk)
        self.state: Any = None if plan is None else plan["regex"]
        self.script_pos = 0
        self.faults: list[tuple[str, str]] = []  # (kind, offending text)
        self.silent = False
        self.io: Any = None
        self.events: list[str] = []
        self.sleeps = 0
        self.pipelined = 0
        self.last_end: dict[str, float] = {}

    # ---- called from the spec --------------------------------------------------
    def on_send(self, sender: str, message: Any, recipient: Optional[str]) -> None:
        text = str(message)
        self.sent.append((sender, recipient, text))
        self.events.append(f"send {sender}->{recipient} {text!r}")
        sym = self._symbol_of(sender, recipient, text)
        if sym is not None and self.state is not None:
            self.state = self.plan["deriv"](self.state, sym)

    # ---- clock --------------------------------------------------------------------
    def time(self) -> float:
        return self.now

    def sleep(self, dt: float, waiting_for_remote: bool = True) -> None:
        self.sleeps += 1
        if self.sleeps > 200000:
            raise RuntimeError("harness: virtual clock ran away")
        self.now += dt
        delivered = self._deliver_due()
        # the peers start a new message only while the fuzzer explicitly waits for a remote party
        # (sleep in the main loop, nothing unread), not while the packet parser polls for fragments
        if (waiting_for_remote and not delivered and not self.pending and not self.silent
                and not self.io.received_msg()):
            self._plan_next_remote()

    # ---- external parties -----------------------------------------------------------
    def _deliver_due(self) -> bool:
        due = sorted([p for p in self.pending if p[0] <= self.now + 1e-9], key=lambda p: p[0])  # stable: ties keep planning order
        self.pending = [p for p in self.pending if p[0] > self.now + 1e-9]
        for t, sender, receiver, chunk in due:
            self.io.add_receive(sender, receiver, chunk)
            self.delivered[sender] = self.delivered.get(sender, "") + chunk
            self.delivery_log.append((t, sender, receiver, chunk))
            self.events.append(f"deliver@{t:.3f} {sender}->{receiver} {chunk!r}")
        return bool(due)

    def _symbol_of(self, sender: str, recipient: Optional[str], text: str) -> Any:
        for (s, r, t), body in self.plan["bodies"].items():
            if s == sender and r == recipient and text.startswith(t + ":"):
                return (s, r, t)
        return None

    def _plan_next_remote(self, start_at: Optional[float] = None, depth: int = 0, after: Optional[tuple[str, float]] = None) -> None:
        """The fuzzer is waiting (it sleeps): let an external party speak if the protocol allows it.
        With step["pipeline"] the peers do not wait for the fuzzer to digest a message: if only external parties may
        speak after it, the next remote message is put on the wire right away (same sender: behind the previous
        message; another sender: from now on, so that the fragments of the two parties interleave)."""
        plan = self.plan
        nxt = sorted(plan["first"](self.state))
        ext = [s for s in nxt if s[0] in plan["external"]]
        if not ext:
            return
        if self.script_pos >= len(plan["script"]):
            # script used up: head for the end of the interaction by the shortest way
            step = {"kind": "valid", "pick": 0, "value": 2, "chunks": [100], "gaps": [0.01]}
            ext.sort(key=lambda s_: (plan["dist"](plan["deriv"](self.state, s_)), s_))
        else:
            step = plan["script"][self.script_pos]
        self.script_pos += 1
        sym = ext[step["pick"] % len(ext)]
        kind = step["kind"]
        if kind == "violating" and sym[2] not in plan["constrained"]:
            kind = "valid"  # this message type has no constraint that could be violated
        text = plan["make"](sym, step["value"], kind)
        if kind == "wrong_type":
            self.faults.append((kind, text))
        elif kind == "violating":
            self.faults.append((kind, text))
        elif kind == "truncated":
            text = text[: max(1, len(text) // 2)]
            self.faults.append((kind, text))
            self.silent = True
        # chunks and arrival times
        t = self.now if start_at is None else start_at
        t = max(t, self.last_end.get(sym[0], 0.0))  # one party's messages stay in order
        if after is not None:
            # Fandango reads the party whose first fragment arrived first: the first fragments keep the order of
            # the interaction, everything after them may interleave
            t = max(t, after[1] + 0.001)
        first_at: Optional[float] = None
        pos = 0
        sizes = list(step["chunks"]) or [len(text)]
        gaps = list(step["gaps"]) or [0.0]
        i = 0
        while pos < len(text):
            n = max(1, sizes[i % len(sizes)])
            t += gaps[i % len(gaps)]
            self.pending.append((t, sym[0], sym[1], text[pos:pos + n]))
            if first_at is None:
                first_at = t
            pos += n
            i += 1
        self.last_end[sym[0]] = t
        if kind == "valid":
            self.state = plan["deriv"](self.state, sym)
        else:
            self.silent = True  # after a fault the peer says nothing more
        self.events.append(f"plan {kind} {sym} {text!r}")
        if kind == "valid" and step.get("pipeline") and depth < 2:
            nxt2 = plan["first"](self.state)
            if nxt2 and all(s_[0] in plan["external"] for s_ in nxt2):
                self.pipelined += 1
                self._plan_next_remote(start_at=self.now, depth=depth + 1, after=(sym[0], first_at if first_at is not None else t))


class Clock:
    """`time` replacement for one module; `waiting` tells the driver which loop is sleeping."""

    def __init__(self, driver: Driver, waiting: bool):
        self.driver = driver
        self.waiting = waiting

    def time(self) -> float:
        return self.driver.now

    def sleep(self, dt: float) -> None:
        self.driver.sleep(dt, self.waiting)


DRIVER = Driver()
