"""Shared runner machinery for the /verif checks (see DESIGN.md section 0).

Every check module under vf/checks exposes

    PROP, LEVEL, RULE, ASSUMPTIONS
    shards(tier)            -> number of worker processes
    run_shard(ctx)          -> drives generated search; records cases through ctx
    replay(case)            -> list[str] of violation messages for one stored case
                               (re-run WITHOUT hypothesis)
    classify(case)          -> optional; key of the known-finding class the case
                               belongs to (or None)

The runner forks the shards, merges their counters, handles known findings and
writes evidence/<id>.json.
"""

from __future__ import annotations

import hashlib
import importlib
import json
import multiprocessing
import os
import sys
import time
import traceback
from collections import Counter
from typing import Any, Callable, Optional

VERIF_DIR = os.path.dirname(os.path.dirname(os.path.abspath(__file__)))
REPO = os.environ.get("VERIF_REPO", "/repo")
SRC = os.path.join(REPO, "src")


def setup_env() -> None:
    """Make the working tree (not the installed copy) the code under test."""
    os.environ.setdefault("FANDANGO_DISABLE_UPDATE_CHECK", "1")
    os.environ.setdefault("FANDANGO_DISABLE_VISUALIZATION", "1")
    os.environ.pop("FANDANGO_RAISE_ALL_EXCEPTIONS", None)
    for p in (VERIF_DIR, SRC):
        if p in sys.path:
            sys.path.remove(p)
        sys.path.insert(0, p)


def import_fandango() -> Any:
    setup_env()
    import fandango  # noqa

    f = os.path.realpath(fandango.__file__)
    if not f.startswith(os.path.realpath(SRC) + os.sep):
        raise HarnessError(f"fandango imported from {f}, expected under {SRC}")
    import logging
    from fandango.logger import LOGGER

    LOGGER.setLevel(logging.CRITICAL)
    return fandango


class HarnessError(Exception):
    """The harness (not the code under test) is broken: exit status 2."""


class Violation(Exception):
    """Raised inside a hypothesis test; carries the JSON-able failing case."""

    def __init__(self, case: Any, msgs: list[str]):
        super().__init__(msgs[0] if msgs else "violation")
        self.case = case
        self.msgs = msgs


def jhash(obj: Any) -> int:
    s = json.dumps(obj, sort_keys=True, default=repr, ensure_ascii=True)
    return int.from_bytes(hashlib.blake2b(s.encode(), digest_size=8).digest(), "big")


def derive_seed(seed: int, shard: int, salt: str = "") -> int:
    h = hashlib.blake2b(f"{seed}:{shard}:{salt}".encode(), digest_size=8).digest()
    return int.from_bytes(h, "big") >> 1


class Ctx:
    """Per-shard recorder handed to run_shard()."""

    MAX_SAMPLES = 6
    MAX_HASHES = 400_000

    def __init__(self, prop: str, tier: str, seed: int, shard: int, nshards: int):
        self.prop = prop
        self.tier = tier
        self.base_seed = seed
        self.shard = shard
        self.nshards = nshards
        self.seed = derive_seed(seed, shard, prop)
        self.evaluations = 0
        self.nontrivial: set[int] = set()
        self.classes: Counter[str] = Counter()
        self.samples: list[Any] = []
        self.failures: list[dict[str, Any]] = []
        self.notes: dict[str, Any] = {}
        self.t0 = time.time()
        self.known_classes: set[str] = set()
        self._shrink_calls = 0
        self._failed_once = False

    # ---- recording -----------------------------------------------------
    def case(self, key: Any, nontrivial: bool, classes: tuple[str, ...] = (),
             sample: Any = None) -> None:
        """Record one executed case. `key` identifies distinct cases."""
        self.evaluations += 1
        for c in classes:
            self.classes[c] += 1
        if nontrivial:
            if len(self.nontrivial) < self.MAX_HASHES:
                self.nontrivial.add(key if isinstance(key, int) else jhash(key))
            self.classes["nontrivial"] += 1
            if sample is not None and len(self.samples) < self.MAX_SAMPLES:
                # spread samples over the run
                if self.evaluations % 7 == 1 or len(self.samples) < 2:
                    self.samples.append(sample)

    def count(self, cls: str, n: int = 1) -> None:
        self.classes[cls] += n

    def fail(self, case: Any, msgs: list[str]) -> None:
        """Report a violation from inside a hypothesis test (raises)."""
        raise Violation(case, msgs)

    def record_failure(self, case: Any, msgs: list[str]) -> None:
        self.failures.append({"case": case, "msgs": msgs[:5]})

    # ---- hypothesis helpers --------------------------------------------
    def settings(self, max_examples: int, **kw: Any) -> Any:
        from hypothesis import HealthCheck, Phase, settings

        phases = kw.pop("phases", (Phase.generate, Phase.shrink))
        return settings(
            max_examples=max_examples,
            database=None,
            deadline=None,
            derandomize=False,
            report_multiple_bugs=False,
            suppress_health_check=list(HealthCheck),
            phases=phases,
            print_blob=False,
            **kw,
        )

    def run_test(self, test: Callable[..., None], max_examples: int, salt: str = "",
                 **kw: Any) -> None:
        """Run a @given test under the shard's seed; turn a (shrunk) Violation into
        a recorded failure instead of an exception."""
        from hypothesis import seed

        wrapped = seed(derive_seed(self.seed, 0, salt))(self.settings(max_examples, **kw)(test))
        try:
            wrapped()
        except Violation as v:
            self.record_failure(v.case, v.msgs)
        except BaseException as e:  # noqa
            # hypothesis wraps some errors (Flaky, MultipleFailures ...)
            v2 = _find_violation(e)
            if v2 is not None:
                self.record_failure(v2.case, v2.msgs)
            else:
                raise

    def run_machine(self, machine_cls: Any, max_examples: int, steps: int, salt: str = "") -> None:
        from hypothesis import seed
        from hypothesis.stateful import run_state_machine_as_test

        m = seed(derive_seed(self.seed, 0, salt))(machine_cls)
        try:
            run_state_machine_as_test(
                m, settings=self.settings(max_examples, stateful_step_count=steps)
            )
        except Violation as v:
            self.record_failure(v.case, v.msgs)
        except BaseException as e:  # noqa
            v2 = _find_violation(e)
            if v2 is not None:
                self.record_failure(v2.case, v2.msgs)
            else:
                raise

    def result(self) -> dict[str, Any]:
        return {
            "evaluations": self.evaluations,
            "nontrivial": list(self.nontrivial),
            "classes": dict(self.classes),
            "samples": self.samples,
            "failures": self.failures,
            "notes": self.notes,
        }


def _find_violation(e: BaseException) -> Optional[Violation]:
    seen = set()
    stack = [e]
    while stack:
        x = stack.pop()
        if id(x) in seen or x is None:
            continue
        seen.add(id(x))
        if isinstance(x, Violation):
            return x
        stack.extend([x.__cause__, x.__context__])
        stack.extend(getattr(x, "exceptions", []) or [])
    return None


# ---------------------------------------------------------------------------
# known findings

def load_known() -> list[dict[str, Any]]:
    p = os.path.join(VERIF_DIR, "known_findings.json")
    if not os.path.exists(p):
        return []
    with open(p) as f:
        return json.load(f)["findings"]


# ---------------------------------------------------------------------------
# shard driver

class _Tail:
    def __init__(self, cap: int = 4000):
        self.buf = ""
        self.cap = cap

    def write(self, s: str) -> int:
        self.buf = (self.buf + s)[-self.cap:]
        return len(s)

    def flush(self) -> None:
        pass


def _shard_main(modname: str, tier: str, seed: int, shard: int, nshards: int, q: Any) -> None:
    try:
        os.environ["PYTHONHASHSEED"] = "0"
        sys.setrecursionlimit(10000)
        sys.stderr = _Tail()  # fandango prints swallowed exceptions to stderr; keep only a tail
        setup_env()
        mod = importlib.import_module(modname)
        if hasattr(mod, "pre_import"):
            mod.pre_import()  # e.g. install the working tree's C++ reader before fandango is imported
        import_fandango()
        ctx = Ctx(mod.PROP, tier, seed, shard, nshards)
        mod.run_shard(ctx)
        q.put(("ok", shard, ctx.result()))
    except BaseException:  # noqa
        q.put(("err", shard, traceback.format_exc()))


def run_check(modname: str, tier: str, seed: int, replay_path: Optional[str]) -> int:
    t0 = time.time()
    setup_env()
    mod = importlib.import_module(modname)
    prop = mod.PROP

    if hasattr(mod, "pre_import"):
        mod.pre_import()
    if replay_path:
        import_fandango()
        with open(replay_path) as f:
            doc = json.load(f)
        msgs = mod.replay(doc["case"])
        classify = getattr(mod, "classify", None)
        key = classify(doc["case"], msgs) if (classify and msgs) else None
        if key is not None and any(kf["property"] == prop and kf["key"] == key and kf["status"] == "open" for kf in load_known()):
            # the stored case shows a listed, open finding and nothing else
            kf = [k for k in load_known() if k["property"] == prop and k["key"] == key][0]
            print(f"KNOWN-FINDING: property={prop} {kf['what']}")
            for m in msgs[:10]:
                print("  " + m)
            return 0
        if msgs:
            print(f"VIOLATION property={prop} replay={replay_path}")
            for m in msgs[:10]:
                print("  " + m)
            return 1
        print(f"replay {replay_path}: property held")
        return 0

    nshards = mod.shards(tier)
    mp = multiprocessing.get_context("fork")
    q = mp.Queue()
    procs = []
    for i in range(nshards):
        p = mp.Process(target=_shard_main, args=(modname, tier, seed, i, nshards, q))
        p.start()
        procs.append(p)
    watchdog = float(os.environ.get("VERIF_WATCHDOG", mod.WATCHDOG[tier] if hasattr(mod, "WATCHDOG") else (900 if tier == "quick" else 7200)))
    results: dict[int, dict[str, Any]] = {}
    errors: list[str] = []
    deadline = t0 + watchdog
    while len(results) + len(errors) < nshards:
        try:
            kind, shard, payload = q.get(timeout=max(1.0, min(5.0, deadline - time.time())))
        except Exception:
            if time.time() > deadline:
                errors.append(f"watchdog: {nshards - len(results) - len(errors)} shard(s) still running after {watchdog}s (inconclusive)")
                break
            if not any(p.is_alive() for p in procs) and q.empty():
                errors.append("a shard died without reporting")
                break
            continue
        if kind == "ok":
            results[shard] = payload
        else:
            errors.append(f"shard {shard}:\n{payload}")
    for p in procs:
        if p.is_alive():
            p.terminate()
    for p in procs:
        p.join(5)

    # ---- merge ---------------------------------------------------------
    evaluations = sum(r["evaluations"] for r in results.values())
    nontrivial: set[int] = set()
    classes: Counter[str] = Counter()
    samples: list[Any] = []
    failures: list[dict[str, Any]] = []
    notes: dict[str, Any] = {}
    for i in sorted(results):
        r = results[i]
        nontrivial.update(r["nontrivial"])
        classes.update(r["classes"])
        for s in r["samples"]:
            if len(samples) < 8:
                samples.append(s)
        failures.extend(r["failures"])
        for k, v in r["notes"].items():
            if isinstance(v, (int, float)) and isinstance(notes.get(k, 0), (int, float)):
                if k.startswith("max_"):
                    notes[k] = max(notes.get(k, v), v)
                else:
                    notes[k] = notes.get(k, 0) + v
            elif isinstance(v, list):
                notes.setdefault(k, [])
                notes[k] = (notes[k] + v)[:20]
            else:
                notes[k] = v

    # ---- regression replays and known findings ---------------------------
    import_fandango()
    known_lines: list[str] = []
    open_keys: set[str] = set()
    regress_fail: list[dict[str, Any]] = []
    n_regress = 0
    for kf in load_known():
        if kf["property"] != prop:
            continue
        rp = os.path.join(VERIF_DIR, kf["replay"]) if kf.get("replay") else None
        msgs: list[str] = []
        if rp and os.path.exists(rp):
            with open(rp) as f:
                doc = json.load(f)
            try:
                msgs = mod.replay(doc["case"])
            except Exception:
                errors.append(f"replay {rp} crashed:\n{traceback.format_exc()}")
                continue
            n_regress += 1
        if kf["status"] == "open":
            open_keys.add(kf["key"])
            if msgs:
                known_lines.append(f"KNOWN-FINDING: property={prop} {kf['what']}")
        elif kf["status"] == "fixed":
            if msgs:
                regress_fail.append({"case": doc["case"], "msgs": msgs, "replay": rp})
    # replays kept as regression corpus (not findings)
    reg_dir = os.path.join(VERIF_DIR, "regress", prop)
    if os.path.isdir(reg_dir):
        for fn in sorted(os.listdir(reg_dir)):
            if not fn.endswith(".json"):
                continue
            rp = os.path.join(reg_dir, fn)
            with open(rp) as f:
                doc = json.load(f)
            try:
                msgs = mod.replay(doc["case"])
            except Exception:
                errors.append(f"replay {rp} crashed:\n{traceback.format_exc()}")
                continue
            n_regress += 1
            if doc.get("expect") == "violation":
                # a seeded-mutant style exemplar documents oracle power; must fail only on mutants
                continue
            if msgs:
                regress_fail.append({"case": doc["case"], "msgs": msgs, "replay": rp})

    classify = getattr(mod, "classify", None)
    new_failures = []
    for f_ in failures:
        key = classify(f_["case"], f_["msgs"]) if classify else None
        if key is not None and key in open_keys:
            classes[f"known:{key}"] += 1
            continue
        new_failures.append(f_)

    violations = 0
    out_lines: list[str] = []
    os.makedirs(os.path.join(VERIF_DIR, "replays"), exist_ok=True)
    seen_cases = set()
    for f_ in new_failures:
        h = jhash(f_["case"])
        if h in seen_cases:
            continue
        seen_cases.add(h)
        violations += 1
        rp = os.path.join("replays", f"{prop}-{h:016x}.json")
        with open(os.path.join(VERIF_DIR, rp), "w") as fh:
            json.dump({"property": prop, "case": f_["case"], "msgs": f_["msgs"],
                       "seed": seed, "tier": tier}, fh, indent=1, default=repr)
        out_lines.append(f"VIOLATION property={prop} replay={rp}")
        for m in f_["msgs"][:3]:
            out_lines.append("  " + m[:600])
    for f_ in regress_fail:
        violations += 1
        out_lines.append(f"VIOLATION property={prop} replay={os.path.relpath(f_['replay'], VERIF_DIR)}")
        for m in f_["msgs"][:3]:
            out_lines.append("  " + m[:600])

    # ---- evidence ------------------------------------------------------
    wall = time.time() - t0
    cov: dict[str, Any] = {
        "evaluations": evaluations,
        "distinct_nontrivial": len(nontrivial),
        "rule": mod.RULE,
        "samples": samples,
        "class_histogram": dict(sorted(classes.items())),
        "regression_replays": n_regress,
        "shards": nshards,
    }
    cov.update(notes)
    extra = getattr(mod, "evidence_extra", None)
    if extra:
        cov.update(extra(cov))
    ev = {
        "property_id": prop,
        "tier": tier,
        "seed": seed,
        "level": mod.LEVEL,
        "coverage": cov,
        "assumptions": list(mod.ASSUMPTIONS),
        "wall_s": round(wall, 2),
        "violations": violations,
    }
    if errors:
        ev["coverage"]["harness_errors"] = [e[-1500:] for e in errors[:4]]
    ev_dir = os.environ.get("VERIF_EVIDENCE_DIR") or os.path.join(VERIF_DIR, "evidence")  # override: sensitivity runs only
    os.makedirs(ev_dir, exist_ok=True)
    with open(os.path.join(ev_dir, f"{prop}.json"), "w") as fh:
        json.dump(ev, fh, indent=1, default=repr, sort_keys=True)
        fh.write("\n")

    for line in known_lines:
        print(line)
    for line in out_lines:
        print(line)
    print(f"{prop} {tier} seed={seed}: evaluations={evaluations} distinct_nontrivial={len(nontrivial)} "
          f"violations={violations} wall={wall:.1f}s")
    if violations:
        return 1
    if errors:
        for e in errors:
            print("HARNESS-ERROR:", e, file=sys.stderr)
        return 2
    if evaluations == 0 or len(nontrivial) < 2:
        print("HARNESS-ERROR: vacuous run (no non-trivial cases)", file=sys.stderr)
        return 2
    return 0
