"""C02 - emitted solutions satisfy every hard constraint.

Domain : evolutionary runs (Fandango.fuzz) over (a) the template grammars of C07 with
         constraint programs from C07's generator (comparisons, boolean combinations,
         selectors, quantifiers, atoms that raise on part of the input space), given in the
         spec, through Fandango(..., constraints=[...]) or fuzz(extra_constraints=[...]);
         (b) computed-repetition specs ({int(<len>)}, nested) with extra constraints;
         x search settings and seeds.
Oracle : vf.refconstraint evaluates every constraint on a plain snapshot of each emitted
         solution (an evaluator that shares neither state nor code with the search; a raising
         combination counts as unsatisfied); computed bounds: the number of iterations equals
         the value of the bound expression on the emitted tree.
"""

from __future__ import annotations

import random
from typing import Any

from hypothesis import given, strategies as st

from vf import refconstraint as R, spec as S
from vf.checks import c07

PROP = "C02"
LEVEL = "exploration"
RULE = (
    "case = (spec with generated constraints, search settings, emitted solution); non-trivial = emitted solution of "
    "a spec where >= 30% of 10 plain Grammar.fuzz samples violate the constraints (satisfaction is not accidental); "
    "distinct by hash of (constraints, solution text)"
)
ASSUMPTIONS = [
    "reference interpreter vf/refconstraint.py; constraints whose two readings of and/or disagree on the emitted tree are set aside and counted",
    "best-effort padding is never requested, so everything fuzz() returns is a claimed solution",
]

DIG = c07.DIG


def shards(tier: str) -> int:
    return 16


@st.composite
def cases(draw: Any) -> dict[str, Any]:
    fam = draw(st.sampled_from(["recs", "expr", "crep", "crep_nested", "crep_trailing"]))
    settings = {
        "population_size": draw(st.sampled_from([6, 12, 25])),
        "max_nodes": draw(st.sampled_from([20, 50])),
        "mutation_rate": draw(st.sampled_from([0.2, 0.6])),
        "crossover_rate": draw(st.sampled_from([0.5, 0.9])),
        "random_seed": draw(st.integers(0, 10**6)),
    }
    if fam in ("recs", "expr"):
        g = c07.GRAMMARS[fam]
        fms = [draw(c07.formulas(g, [], 1, False)) for _ in range(draw(st.integers(1, 3)))]
        route = [draw(st.sampled_from(["spec", "ctor", "extra"])) for _ in fms]
        return {"family": fam, "formulas": fms, "route": route, "settings": settings,
                "gens": draw(st.integers(2, 12)), "desired": draw(st.integers(1, 6))}
    # computed repetitions
    extra = draw(st.lists(st.sampled_from([
        ["expr", "int($0) >= 1", [["nt", "len"]]],
        ["expr", "str($0) != 'b'", [["nt", "item"]]],
        ["cmp", "<=", "int($0)", "2", [["nt", "len"]]],
        ["forall", "<k0>", ["nt", "item"], ["expr", "len(str($0)) <= 2", [["nt", "k0"]]]],
        ["expr", "$0 <= 3", [["len", ["nt", "item"]]]],
    ]), max_size=2))
    return {"family": fam, "formulas": extra, "route": ["spec"] * len(extra), "settings": settings,
            "gens": draw(st.integers(2, 12)), "desired": draw(st.integers(1, 6))}


def crep_spec(fam: str) -> dict[str, Any]:
    item = ["alt", [["lit", "a"], ["seq", [["lit", "b"], ["opt", ["nt", "item"]]]]]]
    if fam == "crep":
        rules = [["start", ["seq", [["nt", "len"], ["lit", ":"], ["crep", ["nt", "item"], "int(<len>)"]]]],
                 ["len", ["alt", [["lit", c] for c in "01234"]]], ["item", item]]
    elif fam == "crep_trailing":
        # the symbol of the bound occurs again AFTER the repetition (only the preceding one counts)
        rules = [["start", ["rep", ["nt", "rec"], 1, 2]],
                 ["rec", ["seq", [["nt", "len"], ["lit", ":"], ["crep", ["nt", "item"], "int(<len>)"], ["lit", ";"], ["nt", "len"], ["lit", "."]]]],
                 ["len", ["alt", [["lit", c] for c in "01234"]]], ["item", item]]
    else:
        rules = [["start", ["rep", ["nt", "rec"], 1, 3]],
                 ["rec", ["seq", [["nt", "len"], ["crep", ["seq", [["nt", "item"], ["opt", ["lit", ","]]]], "int(<len>)"], ["lit", ";"]]]],
                 ["len", ["alt", [["lit", c] for c in "0123"]]], ["item", item]]
    return {"rules": rules, "mode": "text"}


def crep_ok(fam: str, root: R.Node) -> list[str]:
    """Computed bounds on a snapshot: #<item> iterations == int(<len>)."""
    out = []
    holders = [root] if fam == "crep" else [c for c in root.children if c.sym == "<rec>"]
    for h in holders:
        lens = [c for c in h.children if c.sym == "<len>"][:1]  # the <len> in front of the repetition
        items = [c for c in h.children if c.sym == "<item>"]
        if len(lens) != 1 or len(items) != int(lens[0].text):
            out.append(f"computed repetition: <len>={lens[0].text if lens else None} but {len(items)} <item> iterations in {h.text!r}")
    return out


def check_case(case: dict[str, Any], ctx: Any = None) -> list[str]:
    from fandango import Fandango

    fam = case["family"]
    base = {"rules": c07.GRAMMARS[fam]["rules"], "mode": "text"} if fam in c07.GRAMMARS else crep_spec(fam)
    texts = [R.text(fm) for fm in case["formulas"]]
    in_spec = [t for t, r in zip(texts, case["route"]) if r == "spec"]
    ctor = [t for t, r in zip(texts, case["route"]) if r == "ctor"]
    extra = [t for t, r in zip(texts, case["route"]) if r == "extra"]
    spec_text = S.render(dict(base, constraints=in_spec))
    try:
        f = Fandango(spec_text, constraints=ctor or None, use_stdlib=False, use_cache=False)
    except Exception:
        if ctx is not None:
            ctx.count("spec_rejected")
        return []
    emitted: list[Any] = []
    try:
        sols = f.fuzz(extra_constraints=extra or None, desired_solutions=case["desired"],
                      max_generations=case["gens"], solution_callback=lambda t, i: emitted.append(t),
                      **case["settings"])
    except Exception as e:
        if ctx is not None:
            ctx.count(f"fuzz_raised:{type(e).__name__}")
        return []
    msgs: list[str] = []
    # how hard is the constraint set?  (for the non-triviality rule)
    hard = None
    if ctx is not None and emitted:
        bad = 0
        n = 10
        for i in range(n):
            random.seed(1000 + i)
            try:
                t = f.grammar.fuzz("<start>", max_nodes=case["settings"]["max_nodes"])
                r = R.snapshot(t)
                ok = all(_verdict(fm, r) is not False for fm in case["formulas"]) and (fam in c07.GRAMMARS or not crep_ok(fam, r))
            except Exception:
                ok = True
            bad += 0 if ok else 1
        hard = bad / n >= 0.3
    seen = set()
    for t in list(sols) + emitted:
        if id(t) in seen:
            continue
        seen.add(id(t))
        root = R.snapshot(t)
        for fm, txt in zip(case["formulas"], texts):
            v = _verdict(fm, root)
            if v is None:
                if ctx is not None:
                    ctx.count("set_aside_ambiguous_or_unspecified")
                continue
            if v is False:
                st_ = R.stats(fm, root)
                msgs.append(f"emitted solution {root.text!r} violates `{txt}` (reference: combos={st_['combos']}, "
                            f"false={st_['false']}, raising={st_['raising']})")
        if fam not in c07.GRAMMARS:
            msgs.extend(f"emitted solution {root.text!r}: {m}" for m in crep_ok(fam, root))
        if ctx is not None:
            ctx.case({"c": texts, "w": root.text}, bool(hard), ("family=" + fam, "hard" if hard else "easy"),
                     sample={"constraints": texts, "routes": case["route"], "solution": root.text, "family": fam})
    if ctx is not None:
        ctx.count("runs")
        ctx.count("runs_with_solutions" if emitted else "runs_without_solutions")
    return msgs


def _verdict(fm: Any, root: R.Node) -> Any:
    try:
        a = R.evaluate(fm, root)
        b = R.evaluate_joint(fm, root)
    except R.Unspecified:
        return None
    return a if a == b else None


def run_shard(ctx: Any) -> None:
    n = 15 if ctx.tier == "quick" else 600

    @given(cases())
    def test(case: dict[str, Any]) -> None:
        msgs = check_case(case, ctx)
        if msgs:
            ctx.fail(case, msgs)

    ctx.run_test(test, n)


def replay(case: dict[str, Any]) -> list[str]:
    return check_case(case, None)
