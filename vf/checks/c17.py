"""C17 - fixed seeds reproduce the same run.

Domain : configurations = generated spec x search settings x random_seed x PYTHONHASHSEED in
         {0, 1, 12345}.  Two FRESH processes per batch of configurations that differ in
         everything that must not matter: PID, address layout (different amounts of objects
         allocated before fandango is imported, so id() values differ), start time (one
         starts after a delay), working directory, unrelated environment variables.
Oracle : byte-for-byte equality of the JSON report: ordered solutions (serialisation and tree
         shape) from fuzz(), and the ordered forests for a list of words from parse().
"""

from __future__ import annotations

import json
import os
import subprocess
import sys
import tempfile
from typing import Any

from hypothesis import given, strategies as st

from vf import common, refconstraint as R, spec as S, specgen
from vf.checks import c01, c07

PROP = "C17"
LEVEL = "exploration"
RULE = (
    "case = configuration (spec, settings, random seed, hash seed) run in two fresh processes; non-trivial = run "
    "with >= 3 solutions; distinct by hash of the configuration"
)
ASSUMPTIONS = [
    "the hash seed is equal inside a pair, as the statement says; processes differ in pid, address layout, start time, cwd and unrelated environment",
    "nondeterminism with a probability far below 1/cases (a rare address-ordered tie) can be missed",
]
WORKER = os.path.join(common.VERIF_DIR, "vf", "workers", "run_configs.py")


def shards(tier: str) -> int:
    return 16


# ambiguous grammars: the ORDER of the parse forest (and the first tree) must be the same in every process
AMBIGUOUS = [
    ("<start> ::= <a1> | <a2> | <a3> | <a4> | <a5> | <a6>\n" + "".join(f"<a{i}> ::= <w>\n" for i in range(1, 7)) + "<w> ::= 'x'+\n", ["x", "xxx"]),
    ("<start> ::= <i>+\n<i> ::= <p1> | <p2> | <p3> | <p4> | <p5>\n<p1> ::= 'a'\n<p2> ::= 'a' 'a'?\n<p3> ::= 'a'{1,2}\n<p4> ::= 'a' | 'b'\n<p5> ::= 'aa' | 'a'\n", ["a", "aa", "ab"]),
    ("<start> ::= <e>\n<e> ::= <e> '+' <e> | 'n'\n", ["n+n+n", "n+n+n+n", "n+n"]),
    ("<start> ::= <a> <a>\n<a> ::= 'x'*\n", ["xx", "xxx", ""]),
    ("<start> ::= <s>\n<s> ::= 'a' <s> | <s> 'a' | 'a'\n", ["aaa", "aaaa"]),
    ("<start> ::= (<p> | <q>)+\n<p> ::= 'ab' | 'a'\n<q> ::= 'b' | 'ba'\n", ["abab", "aba", "abba"]),
    ("<start> ::= <x>{1,3} <y>{1,3}\n<x> ::= 'a' | 'aa'\n<y> ::= 'a' | 'b'\n", ["aaa", "aaaa", "aaab"]),
    ("<start> ::= <u> | <v>\n<u> ::= 'a' <u>? \n<v> ::= <v>? 'a'\nwhere len(str(<start>)) >= 2\n", ["aa", "aaa"]),
]


@st.composite
def configs(draw: Any) -> dict[str, Any]:
    kind = draw(st.sampled_from(["template", "template", "specgen", "c07", "ambiguous", "exists"]))
    if kind == "exists":
        # existential constraints that FAIL for several candidates, so that the search has failing parts to choose from
        text = draw(st.sampled_from([
            "<start> ::= <n> (',' <n>){2,5}\n<n> ::= <d>{1,2}\n<d> ::= '0' | '1' | '2' | '3' | '4' | '5' | '6' | '7' | '8' | '9'\nwhere exists <k> in <n>: int(<k>) == 77\n",
            "<start> ::= <w>+\n<w> ::= <c> <c> ';'\n<c> ::= 'a' | 'b' | 'c'\nwhere any(str(k) == 'cc;' for k in *<w>)\nwhere len(str(<start>)) >= 12\n",
            "<start> ::= <n> (',' <n>){3}\n<n> ::= <d>{2}\n<d> ::= '0' | '1' | '2' | '3' | '4' | '5' | '6' | '7' | '8' | '9'\nwhere exists <k> in <n>: int(<k>) > 95\nwhere exists <k> in <n>: int(<k>) < 4\n",
        ]))
        return {
            "spec_text": text,
            "settings": {"population_size": draw(st.sampled_from([5, 10])), "max_nodes": 40, "random_seed": draw(st.integers(0, 10**6))},
            "gens": draw(st.integers(4, 10)), "desired": draw(st.integers(2, 5)), "words": [],
        }
    if kind == "ambiguous":
        text, words = draw(st.sampled_from(AMBIGUOUS))
        return {
            "spec_text": text,
            "settings": {"population_size": draw(st.sampled_from([5, 10])), "max_nodes": 20, "random_seed": draw(st.integers(0, 10**6))},
            "gens": draw(st.integers(2, 5)), "desired": draw(st.integers(2, 5)), "words": words,
        }
    if kind == "template":
        spec = draw(c01.template_specs())
    elif kind == "specgen":
        spec = draw(specgen.grammars({"mode": "text", "regex": draw(st.sampled_from(["guarded", "none"]))}))
        spec = dict(spec, constraints=draw(st.lists(st.sampled_from([
            "len(str(<start>)) >= 3", "'b' in str(<start>)", "str(<start>).count('a') % 2 == 0"]), max_size=2)))
    else:
        gname = draw(st.sampled_from(sorted(c07.GRAMMARS)))
        fms = [draw(c07.formulas(c07.GRAMMARS[gname], [], 1, False)) for _ in range(draw(st.integers(1, 2)))]
        spec = {"rules": c07.GRAMMARS[gname]["rules"], "mode": "text", "constraints": [R.text(f) for f in fms]}
    sem = S.Sem({k: v for k, v in spec.items() if k in ("rules", "mode")}) if "crep" not in specgen.uses(spec) else None
    words = []
    if sem is not None:
        ws = sem.enumerate_words("start", max_len=5, cap=30)
        words = [ws[i % len(ws)] for i in draw(st.lists(st.integers(0, 100), max_size=3))] if ws else []
    return {
        "spec_text": S.render(spec),
        "settings": {"population_size": draw(st.sampled_from([5, 10, 20])), "max_nodes": draw(st.sampled_from([15, 40])),
                     "mutation_rate": draw(st.sampled_from([0.2, 0.7])), "crossover_rate": draw(st.sampled_from([0.5, 0.9])),
                     "random_seed": draw(st.integers(0, 10**6))},
        "gens": draw(st.integers(2, 10)), "desired": draw(st.integers(3, 8)), "words": words,
    }


def run_worker(job: dict[str, Any], hashseed: int, extra_env: dict[str, str], cwd: str) -> Any:
    env = {k: v for k, v in os.environ.items() if k not in ("FANDANGO_RAISE_ALL_EXCEPTIONS",)}
    env.update({"PYTHONHASHSEED": str(hashseed), "FANDANGO_DISABLE_UPDATE_CHECK": "1", "FANDANGO_DISABLE_VISUALIZATION": "1"})
    env.update(extra_env)
    env.pop("PYTHONPATH", None)
    p = subprocess.run([sys.executable, WORKER], input=json.dumps(job), capture_output=True, text=True, env=env, cwd=cwd, timeout=600)
    if p.returncode != 0:
        raise common.HarnessError(f"worker failed: {p.stderr[-800:]}")
    return json.loads(p.stdout)


def check_case(case: dict[str, Any], ctx: Any = None) -> list[str]:
    job = {"repo_src": common.SRC, "configs": case["configs"]}
    with tempfile.TemporaryDirectory(dir=os.environ.get("TMPDIR", "/tmp")) as d:
        a = run_worker(dict(job, pad=0, delay=0.0), case["hashseed"], {}, common.VERIF_DIR)
        b = run_worker(dict(job, pad=case["pad"], delay=0.2, cwd=d), case["hashseed"], {"VF_UNRELATED": "x" * 50, "TZ": "Asia/Tokyo"}, d)
    msgs: list[str] = []
    for i, (ra, rb) in enumerate(zip(a["report"], b["report"])):
        if json.dumps(ra, sort_keys=True) != json.dumps(rb, sort_keys=True):
            sa = [s[0] for s in ra.get("solutions", [])]
            sb = [s[0] for s in rb.get("solutions", [])]
            what = "solutions" if sa != sb or ra.get("solutions") != rb.get("solutions") else "parse results"
            msgs.append(
                f"config {i} (PYTHONHASHSEED={case['hashseed']}, random_seed={case['configs'][i]['settings']['random_seed']}): "
                f"{what} differ between two fresh processes: {sa[:6]!r} vs {sb[:6]!r}; spec:\n{case['configs'][i]['spec_text'][:400]}")
        if ctx is not None:
            n = len(ra.get("solutions", []))
            ctx.case({"c": case["configs"][i], "h": case["hashseed"]}, n >= 3, (f"hashseed={case['hashseed']}", "solutions>=3" if n >= 3 else "solutions<3"),
                     sample={"spec": case["configs"][i]["spec_text"][:300], "settings": case["configs"][i]["settings"],
                             "hashseed": case["hashseed"], "solutions": [s[0] for s in ra.get("solutions", [])][:5]})
    if ctx is not None:
        ctx.count("process_pairs")
        if a["pid"] != b["pid"]:
            ctx.count("pids_differ")
    return msgs


def run_shard(ctx: Any) -> None:
    n = 3 if ctx.tier == "quick" else 90

    @given(st.lists(configs(), min_size=4, max_size=4), st.sampled_from([0, 1, 12345]), st.integers(1000, 200000))
    def test(cfgs: list[Any], hashseed: int, pad: int) -> None:
        case = {"configs": cfgs, "hashseed": hashseed, "pad": pad}
        msgs = check_case(case, ctx)
        if msgs:
            ctx.fail(case, msgs)

    from hypothesis import Phase

    ctx.run_test(test, n, phases=(Phase.generate,))


def replay(case: dict[str, Any]) -> list[str]:
    return check_case(case, None)
