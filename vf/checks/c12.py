"""C12 - parse results do not depend on earlier parse calls.

Domain : hypothesis RuleBasedStateMachine over ONE spec object (ambiguous and unambiguous
         generated grammars).  Rules = parse-type requests: grammar.parse (first tree
         only), full parse_forest, a forest generator consumed for k items and abandoned,
         parse_multiple, INCOMPLETE mode, other start symbols, include_controlflow,
         Fandango.parse consumed fully or partly, a short fuzz() (internal parses for
         repairs), and edits of previously returned trees.
Model  : for every request the expected answer is computed on a FRESH spec object built
         from the same text (memoised per request); the invariant is that the sequence of
         yielded tree shapes equals the fresh one.
"""

from __future__ import annotations

import itertools
from typing import Any

from hypothesis import strategies as st
from hypothesis.stateful import RuleBasedStateMachine, initialize, precondition, rule

from vf import spec as S, specgen
from vf.harness import Fuel, FuelExhausted, apply_edits, perturb_strategies

PROP = "C12"
LEVEL = "exploration"
RULE = (
    "case = (generated spec, history of parse-type requests on one spec object); non-trivial = a history that "
    "contains a first-only / abandoned / other-mode request followed by a full request for the same word with "
    ">= 2 trees, or a request after an edit of a returned tree; distinct by hash of (spec, history)"
)
ASSUMPTIONS = [
    "the model is a fresh Fandango object built from the same spec text (differential against a history-free run)",
    "trees are compared by shape (symbols, children, leaf values); origin_repetitions bookkeeping ids are not part of the comparison",
    "requests that exceed the parser state budget on the fresh object are skipped (counted)",
]

CAP = 30
CREP_EVERY = 4  # every 4th generated machine works on CREP_SPEC
BIN_EVERY = 5
BIN_SPEC = {"rules": [["start", ["seq", [["nt", "tag"], ["nt", "val"], ["opt", ["blit", b";".hex()]]]]], ["tag", ["brx", "[ab]+"]],
                      ["val", ["alt", [["brx", "[0-9]{1,2}"], ["lit", "x"]]]]], "mode": "bin", "alphabet": "ab"}
CREP_SPEC = {"rules": [["start", ["seq", [["nt", "len"], ["nt", "items"]]]], ["len", ["alt", [["lit", "1"], ["lit", "2"], ["lit", "3"]]]],
                       ["items", ["crep", ["nt", "item"], "int(<len>)"]], ["item", ["alt", [["lit", "a"], ["lit", "b"]]]]],
             "mode": "text", "alphabet": "ab"}


def shards(tier: str) -> int:
    return 16


class World:
    """One spec object under test plus the fresh-object oracle; used by the machine and by replay."""

    def __init__(self, spec: dict[str, Any]):
        self.spec = spec
        self.f = S.load(spec)
        self.expected: dict[str, Any] = {}
        self.returned: list[Any] = []
        self.full_done: set[str] = set()
        self.partial_done: set[str] = set()
        self.nontrivial = False
        self.edited = False

    def request(self, f: Any, step: list[Any]) -> Any:
        from fandango.language.grammar import ParsingMode

        kind, word, start = step[0], step[1], f"<{step[2]}>"
        if isinstance(word, dict):
            word = bytes.fromhex(word["b"])  # bytes inputs are stored as {"b": hex}
        k = step[3] if len(step) > 3 else None
        g = f.grammar
        if kind == "first":
            t = g.parse(word, start)
            return [] if t is None else [t]
        if kind == "forest":
            return list(itertools.islice(g.parse_forest(word, start), CAP))
        if kind == "partial":
            gen = g.parse_forest(word, start)
            out = list(itertools.islice(gen, k))
            if step[4] if len(step) > 4 else False:
                gen.close()
            return out
        if kind == "multiple":
            return list(itertools.islice(g.parse_multiple(word, start), CAP))
        if kind == "incomplete":
            return list(itertools.islice(g.parse_forest(word, start, mode=ParsingMode.INCOMPLETE), k or 3))
        if kind == "controlflow":
            return list(itertools.islice(g.parse_forest(word, start, include_controlflow=True), k or CAP))
        if kind == "api":
            return list(itertools.islice(f.parse(word), k or CAP))
        if kind == "hook":
            # the request the protocol code makes: parse below a hook-in parent that already holds the length field
            from fandango.language.symbols import NonTerminal, Terminal
            from fandango.language.tree import DerivationTree

            hook = DerivationTree(NonTerminal("<start>"), [DerivationTree(NonTerminal("<len>"), [DerivationTree(Terminal(str(k)))])])
            t = g.parse(word, start, hookin_parent=hook)
            return [] if t is None else [t]
        raise ValueError(kind)

    def apply(self, step: list[Any], ctx: Any = None) -> list[str]:
        kind = step[0]
        if kind == "fuzz":
            try:
                self.f.fuzz(desired_solutions=2, max_generations=2, population_size=4, random_seed=step[1], max_nodes=15)
            except Exception:
                pass
            return []
        if kind == "edit":
            if self.returned:
                t = self.returned[step[1] % len(self.returned)]
                from fandango.language.symbols import Terminal

                allnodes = list(t.flatten())
                nodes = [n for n in allnodes if not n.symbol.is_terminal]
                leaves = [n for n in allnodes if n.symbol.is_terminal]
                how = step[3] % 4
                if how >= 2 and leaves:
                    # the caller edits a LEAF of its tree: another terminal / frozen
                    n = leaves[step[2] % len(leaves)]
                    if how == 2:
                        n.symbol = Terminal("#")
                    else:
                        n.read_only = True
                    self.edited = True
                elif nodes:
                    n = nodes[step[2] % len(nodes)]
                    n.set_children(list(n.children[:-1]) if how % 2 and n.children else [])
                    self.edited = True
            return []
        key = repr(step)
        if key not in self.expected:
            fresh = S.load(self.spec)
            try:
                with Fuel(30000):
                    self.expected[key] = [S.shape(t) for t in self.request(fresh, step)]
            except FuelExhausted:
                self.expected[key] = None
            except Exception as e:
                self.expected[key] = f"raised {type(e).__name__}"
        want = self.expected[key]
        if want is None:
            if ctx is not None:
                ctx.count("skipped_fuel")
            return []
        try:
            with Fuel(60000):
                got_trees = self.request(self.f, step)
            got: Any = [S.shape(t) for t in got_trees]
            frozen = [i for i, t in enumerate(got_trees) if any(n.read_only for n in t.flatten())]
            self.returned.extend(got_trees[:3])
            if frozen and kind != "fuzz":
                return [f"request {step!r} yields tree(s) {frozen} with read-only nodes: a fresh parse result has none "
                        f"(a node of an earlier result, frozen by its owner, was handed out again)"]
        except FuelExhausted:
            return [f"request {step!r} exceeded the parser budget on the used object but not on a fresh one"]
        except Exception as e:
            got = f"raised {type(e).__name__}"
        wkey = repr(step[1:3])
        if kind in ("forest", "multiple", "api") and isinstance(want, list) and len(want) >= 2:
            if wkey in self.partial_done or self.edited:
                self.nontrivial = True
        if kind in ("first", "partial", "incomplete", "controlflow", "hook"):
            self.partial_done.add(wkey)
        if kind == "hook":
            self.hooked = True
        elif getattr(self, "hooked", False) and step[2] != "start":
            self.nontrivial = True
        if got != want:
            return [f"request {step!r} after an earlier history yields {_brief(got)}, a fresh spec object yields {_brief(want)}"]
        return []


def _brief(x: Any) -> str:
    if isinstance(x, list):
        return f"{len(x)} tree(s) {repr(x)[:300]}"
    return repr(x)


def make_machine(ctx: Any) -> Any:
    class ParseHistory(RuleBasedStateMachine):
        def __init__(self) -> None:
            super().__init__()
            self.world: Any = None
            self.steps: list[Any] = []
            self.words: list[str] = []

        @initialize(spec=specgen.grammars({"mode": "text", "max_rules": 3, "regex": "none"}),
                    ambiguous=st.booleans(), edits=st.lists(perturb_strategies(), min_size=2, max_size=2))
        def setup(self, spec: dict[str, Any], ambiguous: bool, edits: list[Any]) -> None:
            if BIN_EVERY and (len(repr(spec)) + 3 * len(repr(edits))) % BIN_EVERY == 1:
                # a binary spec with bytes regexes, asked with bytes AND with text inputs (one object serves both)
                self.spec = BIN_SPEC
                self.world = World(BIN_SPEC)
                self.words = [{"b": w.hex()} for w in (b"a1", b"ab12;", b"bx", b"a", b"a1;", b"b7;")] + ["a1", "ab12;", "bx", "a", "b7;"]
                self.starts = ["start", "tag"]
                return
            if CREP_EVERY and (len(repr(spec)) + len(repr(edits))) % CREP_EVERY == 0:
                # a spec with a computed repetition: requests below a hook-in parent and for the inner symbol alone
                self.spec = CREP_SPEC
                self.world = World(CREP_SPEC)
                self.words = ["aba", "ab", "3aba", "2ab", "1a", "b", "2aba", ""]
                self.starts = ["start", "items"]
                self.crep = True
                return
            if ambiguous:
                # make <start> ambiguous: the same body reachable through two alternatives
                name, rhs = spec["rules"][0]
                spec["rules"][0] = [name, ["alt", [rhs, ["seq", [rhs, ["opt", ["lit", spec["alphabet"][0]]]]]]]]
                specgen._fix_nullable_reps(spec, spec["alphabet"], "text")
            self.spec = spec
            self.world = World(spec)
            sem = S.Sem(spec)
            ws = sem.enumerate_words("start", max_len=5, cap=40)
            self.words = ws[:12] or [""]
            for w, ed in zip(list(self.words)[:2], edits):
                self.words.append(apply_edits(w, ed, spec["alphabet"]))
            self.starts = [r[0] for r in spec["rules"]][:2]

        def _do(self, step: list[Any]) -> None:
            self.steps.append(step)
            msgs = self.world.apply(step, ctx)
            if msgs:
                ctx.fail({"spec": self.spec, "steps": self.steps}, msgs)

        @rule(i=st.integers(0, 50), s=st.integers(0, 1))
        def first(self, i: int, s: int) -> None:
            self._do(["first", self.words[i % len(self.words)], self.starts[s % len(self.starts)]])

        @rule(i=st.integers(0, 50), s=st.integers(0, 1))
        def forest(self, i: int, s: int) -> None:
            self._do(["forest", self.words[i % len(self.words)], self.starts[s % len(self.starts)]])

        @rule(i=st.integers(0, 50), k=st.integers(1, 2), close=st.booleans())
        def partial(self, i: int, k: int, close: bool) -> None:
            self._do(["partial", self.words[i % len(self.words)], "start", k, close])

        @rule(i=st.integers(0, 50))
        def multiple(self, i: int) -> None:
            self._do(["multiple", self.words[i % len(self.words)], "start"])

        @rule(i=st.integers(0, 50), k=st.integers(1, 3))
        def incomplete(self, i: int, k: int) -> None:
            self._do(["incomplete", self.words[i % len(self.words)], "start", k])

        @rule(i=st.integers(0, 50), k=st.integers(1, 3))
        def controlflow(self, i: int, k: int) -> None:
            self._do(["controlflow", self.words[i % len(self.words)], "start", k])

        @rule(i=st.integers(0, 50), k=st.sampled_from([None, 1]))
        def api(self, i: int, k: Any) -> None:
            self._do(["api", self.words[i % len(self.words)], "start", k])

        @precondition(lambda self: getattr(self, "crep", False))
        @rule(i=st.integers(0, 50), n=st.integers(1, 3))
        def hook(self, i: int, n: int) -> None:
            self._do(["hook", self.words[i % len(self.words)], "items", n])

        @rule(seed=st.integers(0, 1000))
        def fuzz(self, seed: int) -> None:
            self._do(["fuzz", seed])

        @rule(i=st.integers(0, 50), j=st.integers(0, 50), k=st.integers(0, 7))
        def edit(self, i: int, j: int, k: int) -> None:
            self._do(["edit", i, j, k])

        def teardown(self) -> None:
            if self.world is not None and self.steps:
                from vf.common import jhash

                ctx.case(jhash({"s": S.render(self.spec), "h": self.steps}), self.world.nontrivial,
                         (f"steps={min(len(self.steps), 30) // 10 * 10}+",),
                         sample={"spec": S.render(self.spec), "history": self.steps[:12]})

    return ParseHistory


def run_shard(ctx: Any) -> None:
    n = 40 if ctx.tier == "quick" else 600
    ctx.run_machine(make_machine(ctx), n, 25 if ctx.tier == "quick" else 40)


def replay(case: dict[str, Any]) -> list[str]:
    w = World(case["spec"])
    for step in case["steps"]:
        msgs = w.apply(step, None)
        if msgs:
            return msgs
    return []
