"""C13 - incremental parsing is independent of how the input is fragmented.

Domain : generated specs (text / bytes / bit-level) x words w of L(G) (and near-misses)
         x ALL 2^(n-1) compositions of w into consecutive non-empty fragments for
         n <= 7 units (characters / bytes), fed through IterativeParser.new_parse /
         consume / can_continue exactly as io/packetparser.py does (str / bytes
         fragments, int fragments for single bytes).
Oracle : metamorphic relation over cuts - after the last fragment the set of complete
         trees equals that of the one-fragment feed and of Grammar.parse_forest(w);
         can_continue() may be False only if the enumerated language has no word that
         properly extends the consumed input (a concrete longer word is the counter-example).
Class  : words with a derivation in which some regex leaf does not take the re.match()
         match (known finding C13/non-greedy-split: the whole-input scan is greedy, the
         fragmented one is not) are excluded and counted.
"""

from __future__ import annotations

import itertools
from typing import Any

from hypothesis import given, strategies as st

from vf import spec as S, specgen
from vf.harness import Fuel, FuelExhausted, apply_edits, perturb_strategies
from vf.checks.c04 import from_input, to_input

PROP = "C13"
LEVEL = "exploration"
RULE = (
    "case = (generated spec, word, composition of the word into fragments); all 2^(n-1) compositions are "
    "enumerated for n <= 7; non-trivial = a composition with a cut inside a multi-unit literal or regex match "
    "(word of >= 2 units, >= 2 fragments) for a spec using literals of length >= 2, regexes or bytes; "
    "distinct by hash of (spec, word, cut set)"
)
ASSUMPTIONS = [
    "the reference for the one-shot result is Fandango's own parse of the unfragmented input (metamorphic relation), whose soundness is C04's business",
    "has-extension is decided on the enumerated language up to 4 more units: a missing extension never raises an alarm",
    "words whose derivations are not all greedy at regex leaves are excluded (counted)",
]


def shards(tier: str) -> int:
    return 16


@st.composite
def ingredients(draw: Any) -> dict[str, Any]:
    mode = draw(st.sampled_from(["text", "text", "bin"]))
    sw: dict[str, Any] = {"mode": mode, "non_ascii": draw(st.integers(0, 3 if mode == "text" else 1)) == 0, "max_rules": 3}
    if mode == "text":
        sw["regex"] = draw(st.sampled_from(["guarded", "guarded", "none"]))
    spec = draw(specgen.grammars(sw))
    if draw(st.integers(0, 5)) == 0:
        # directed: text literals of several UTF-8 bytes per character inside a binary grammar, with material
        # before and behind them, so that every cut inside the literal is among the compositions
        cur = draw(st.lists(st.sampled_from(["€", "£", "¥¥", "ab", "é", "€b"]), min_size=2, max_size=4, unique=True))
        tail = draw(st.sampled_from([["opt", ["nt", "end"]], ["nt", "end"], ["star", ["nt", "end"]]]))
        spec = {"rules": [["start", ["seq", [["nt", "tag"], ["nt", "cur"], tail]]],
                          ["tag", ["alt", [["blit", "01"], ["blit", "0202"]]]],
                          ["cur", ["alt", [["lit", c] for c in cur]]], ["end", ["blit", "00"]]],
                "mode": "bin", "alphabet": "ab"}
    return {"spec": spec, "idx": draw(st.lists(st.integers(0, 10**6), min_size=2, max_size=5)),
            "edits": draw(st.lists(perturb_strategies(), min_size=2, max_size=2)),
            "int_frag": draw(st.booleans()), "first_only": draw(st.booleans())}


def build_case(ing: dict[str, Any]) -> dict[str, Any]:
    spec = ing["spec"]
    mode = spec["mode"]
    sem = S.Sem(spec)
    words = [S.word_to_input(w, mode) for w in sem.enumerate_words("start", max_len=7 if mode == "text" else 40, cap=120)
             if (mode == "text" and 1 <= len(w) <= 7) or (mode != "text" and len(w) % 8 == 0 and 8 <= len(w) <= 40)]
    chosen: list[Any] = list(words) if len(words) <= 12 else []
    for i in ing["idx"]:
        if words:
            w = words[i % len(words)]
            if w not in chosen:
                chosen.append(w)
    alpha = spec["alphabet"]
    for w, ed in zip(list(chosen)[:2], ing["edits"]):
        x = apply_edits(w, ed, alpha)
        if 1 <= len(x) <= 7 and x not in chosen:
            chosen.append(x)
    return {"spec": spec, "words": [from_input(w) for w in chosen], "int_frag": ing["int_frag"],
            "first_only": ing["first_only"]}


def compositions(n: int) -> Any:
    for mask in range(1 << (n - 1)):
        cuts = [i + 1 for i in range(n - 1) if mask >> i & 1]
        yield cuts


def feed(f: Any, word: Any, cuts: list[int], int_frag: bool, first_only: bool) -> tuple[set[str], list[bool]]:
    from fandango.language.grammar import ParsingMode
    from fandango.language.grammar.parser.iterative_parser import IterativeParser

    p = IterativeParser(f.grammar.rules)
    p.new_parse("<start>", ParsingMode.COMPLETE)
    bounds = [0] + cuts + [len(word)]
    complete: set[str] = set()
    cont: list[bool] = []
    for k in range(len(bounds) - 1):
        frag = word[bounds[k]:bounds[k + 1]]
        if int_frag and isinstance(frag, bytes) and len(frag) == 1:
            frag = frag[0]
        last = k == len(bounds) - 2
        gen = p.consume(frag)
        if last or not first_only:
            results = list(itertools.islice(gen, 40))
        else:
            results = list(itertools.islice(gen, 1))  # as packetparser does: next(consume(...))
        if last:
            for tree, is_complete in results:
                if is_complete:
                    t = p.collapse(tree)
                    complete.add(repr(S.shape(t)))
        cont.append(p.can_continue())
    return complete, cont


def check_case(case: dict[str, Any], ctx: Any = None) -> list[str]:
    spec = case["spec"]
    mode = spec["mode"]
    sem = S.Sem(spec)
    text = S.render(spec)
    f = S.load(spec)
    msgs: list[str] = []
    uses = specgen.uses(spec)
    lang = None
    for ci in case["words"]:
        word = to_input(ci)
        units = S.input_to_units(word, mode)
        n = len(word)
        if n == 0:
            continue
        _, w_all, conv = sem.derivation_counts(units)
        chart_all, _, _ = sem.derivation_counts(units)
        chart_g, _, _ = sem.derivation_counts(units, greedy=True)
        t_all = chart_all[("start", 0)].get(len(units), 0)
        t_greedy = chart_g[("start", 0)].get(len(units), 0)
        if t_all != t_greedy and not case.get("include_non_greedy"):
            if ctx is not None:
                ctx.count("excluded_non_greedy_derivation")
            continue
        try:
            with Fuel(40000):
                one_shot = {repr(S.shape(t)) for t in itertools.islice(f.grammar.parse_forest(word), 40)}
                f2 = S.load(spec)
                whole, _ = feed(f2, word, [], case["int_frag"], False)
        except FuelExhausted:
            if ctx is not None:
                ctx.count("inconclusive_fuel")
            continue
        if whole != one_shot:
            msgs.append(f"word {word!r}: one-fragment feed gives {len(whole)} complete tree(s), parse_forest gives {len(one_shot)}")
        if len(one_shot) >= 40:
            continue
        for cuts in compositions(n):
            if not cuts:
                continue
            try:
                with Fuel(40000):
                    got, cont = feed(f, word, cuts, case["int_frag"], case["first_only"])
            except FuelExhausted:
                if ctx is not None:
                    ctx.count("inconclusive_fuel")
                continue
            except Exception as e:
                msgs.append(f"word {word!r} cut at {cuts}: consume raised {type(e).__name__}: {e}")
                continue
            if got != one_shot:
                msgs.append(
                    f"word {word!r} cut at {cuts}: fragmented feed ends with {len(got)} complete tree(s), "
                    f"whole input gives {len(one_shot)}; only-fragmented={sorted(got - one_shot)[:1]} only-whole={sorted(one_shot - got)[:1]}"
                )
            # can_continue: False needs "no extension in L"
            bounds = cuts + [n]
            for k, c in enumerate(cont):
                if not c:
                    prefix = word[: bounds[k]]
                    if lang is None:
                        lang = [S.word_to_input(w, mode) for w in
                                sem.enumerate_words("start", max_len=(n + 3) if mode == "text" else 8 * (n + 2), cap=400)
                                if mode == "text" or len(w) % 8 == 0]
                    ext = [w for w in lang if len(w) > len(prefix) and w[: len(prefix)] == prefix
                           and _all_greedy(sem, S.input_to_units(w, mode))][:1]
                    if ext:
                        msgs.append(f"word {word!r} cut at {cuts}: can_continue() is False after {prefix!r} although {ext[0]!r} is in L(G)")
                        break
            if ctx is not None:
                inside = bool(uses & {"rx", "brx"}) or _has_long_literal(spec)
                ctx.case({"s": text, "w": ci, "c": cuts}, n >= 2 and inside,
                         ("mode=" + mode, f"fragments={len(cuts) + 1}", "in_L" if one_shot else "not_in_L"),
                         sample={"spec": text, "word": repr(word), "cuts": cuts, "complete_trees": len(one_shot)})
            if len(msgs) > 5:
                return msgs
    return msgs


def _all_greedy(sem: Any, units: str) -> bool:
    """Every derivation of the word takes the re.match() match at every regex leaf."""
    a, _, _ = sem.derivation_counts(units)
    g, _, _ = sem.derivation_counts(units, greedy=True)
    n = len(units)
    return a[("start", 0)].get(n, 0) == g[("start", 0)].get(n, 0) > 0


def _has_long_literal(spec: dict[str, Any]) -> bool:
    found = False

    def walk(n: Any) -> None:
        nonlocal found
        if n[0] == "lit" and len(n[1].encode("utf-8")) >= 2:
            found = True
        elif n[0] == "blit" and len(n[1]) >= 4:
            found = True
        elif n[0] in ("seq", "alt"):
            for c in n[1]:
                walk(c)
        elif n[0] in ("star", "plus", "opt", "rep", "crep"):
            walk(n[1])

    for _, rhs in spec["rules"]:
        walk(rhs)
    return found


def run_shard(ctx: Any) -> None:
    n = 14 if ctx.tier == "quick" else 300

    @given(ingredients())
    def test(ing: dict[str, Any]) -> None:
        case = build_case(ing)
        msgs = check_case(case, ctx)
        if msgs:
            ctx.fail(case, msgs)

    ctx.run_test(test, n)


def classify(case: dict[str, Any], msgs: list[str]) -> Any:
    return "non-greedy-split" if case.get("include_non_greedy") else None


def replay(case: dict[str, Any]) -> list[str]:
    return check_case(case, None)
