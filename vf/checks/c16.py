"""C16 - generator-defined fields carry generator output and are not edited behind it.

Domain : specs whose Python block defines the generator functions and a global LOG to which
         each call appends (symbol, arguments, result); kinds: constant, random (through
         `random`), dependent on other symbols (the documented converter pattern
         <cc> ::= <number> <check> := add_check(str(<number>)) with the inverse
         <number> ::= <digit>{k} := strip(str(<cc>))), nested; constraints chosen so that
         mutation, crossover and repair act on and around the generated fields (constraints
         on siblings, equalities aimed at a generated field, a computed repetition holding
         one) x search settings and seeds; plus direct mutate / crossover / replace on trees
         that contain generated nodes.  A negative class: a generator that sometimes returns
         a value outside the symbol's rule.
Oracle : for every generated node of every emitted / operator-produced tree: its text is a
         value the generator actually returned for that symbol (it is in LOG); for a
         dependent generator the text equals the reference function applied to the argument
         values recorded in node.sources; its subtree is identical to the parse of that value
         under the symbol's rule.  Negative class: FandangoParseError (or no such tree) -
         never a tree whose field holds something the generator did not return.
"""

from __future__ import annotations

import itertools
import random
from typing import Any

from hypothesis import given, strategies as st

from vf import spec as S

PROP = "C16"
LEVEL = "exploration"
RULE = (
    "case = (generator spec, constraints, settings); every generated node of every emitted or operator-produced tree is "
    "checked; non-trivial = emitted tree with a generated node from a run in which >= 1 search operator was applied; "
    "distinct by hash of (spec, tree text)"
)
ASSUMPTIONS = [
    "generator functions are defined in the spec's own python block and log (symbol, arguments, result); the log is read from the spec's environment after the run",
    "reference implementations of the dependent generators are written in the check",
]

CODE = '''
import random
LOG = []

def gen_n(lo, hi):
    v = str(random.randint(lo, hi))
    LOG.append(("<n>", (), v))
    return v

def gen_const():
    LOG.append(("<k>", (), "777"))
    return "777"

def gen_tag():
    v = random.choice(["ab", "ba", "abba", "b"])
    LOG.append(("<tag>", (), v))
    return v

def add_check(number):
    v = number + str(sum(int(c) for c in number) % 10)
    LOG.append(("<cc>", [number], v))
    return v

def strip_check(cc):
    v = cc[:-1]
    LOG.append(("<number>", [cc], v))
    return v

def join2(a, b):
    v = a + b[::-1]
    LOG.append(("<c>", [a, b], v))
    return v

def pad(a):
    v = a + a if a != "9" else "x9"
    LOG.append(("<p>", [a], v))
    return v

def gen_pick():
    v = str(random.randint(100, 999))
    LOG.append(("<k3>", (), v))
    return v

def gen_bad(p):
    v = "zz" if random.random() < p else str(random.randint(0, 9))
    LOG.append(("<bad>", (), v))
    return v
'''

DIG = ["alt", [["lit", c] for c in "0123456789"]]
GENERATED = {"<n>", "<k>", "<tag>", "<cc>", "<bad>", "<c>", "<p>", "<k3>"}


def shards(tier: str) -> int:
    return 16


def ref_add_check(number: str) -> str:
    return number + str(sum(int(c) for c in number) % 10)


# dependent generators: symbol -> (argument symbols in call order, reference function)
REF: dict[str, Any] = {
    "<cc>": (["<number>"], ref_add_check),
    "<c>": (["<a>", "<b>"], lambda a, b: a + b[::-1]),
    "<p>": (["<a>"], lambda a: a + a if a != "9" else "x9"),
}


@st.composite
def cases(draw: Any) -> dict[str, Any]:
    fam = draw(st.sampled_from(["random", "random", "dependent", "dependent", "nested", "crep", "negative",
                                "dep2", "dep2", "partial", "subfield", "subfield"]))
    rules: list[Any]
    gens: dict[str, str] = {}
    cons: list[str] = []
    lo = draw(st.integers(0, 5))
    if fam == "random":
        rules = [["start", ["seq", [["nt", "n"], ["lit", "#"], ["nt", "w"], ["opt", ["seq", [["lit", ","], ["nt", "k"]]]]]]],
                 ["n", ["plus", DIG]], ["k", ["plus", DIG]], ["w", ["plus", ["alt", [["lit", "p"], ["lit", "q"]]]]]]
        gens = {"n": f"gen_n({lo}, {lo + 40})", "k": "gen_const()"}
        cons = draw(st.lists(st.sampled_from(["len(str(<w>)) >= 3", "str(<w>) == 'pq'", "int(<n>) % 2 == 0",
                                              "str(<n>) == '12'", "str(<start>).endswith('777')", "int(<n>) > 20"]), min_size=1, max_size=3))
    elif fam == "dependent":
        k = draw(st.integers(2, 4))
        rules = [["start", ["seq", [["nt", "cc"], ["lit", ";"], ["nt", "w"]]]],
                 ["cc", ["seq", [["nt", "number"], ["nt", "check"]]]],
                 ["number", ["rep", DIG, k, k]], ["check", DIG],
                 ["w", ["plus", ["alt", [["lit", "p"], ["lit", "q"]]]]]]
        gens = {"cc": "add_check(str(<number>))", "number": "strip_check(str(<cc>))"}
        cons = draw(st.lists(st.sampled_from(["len(str(<w>)) >= 2", "str(<w>) == 'qp'", "int(<number>) % 2 == 1",
                                              "str(<check>) != '0'", "int(<cc>) > 500"]), min_size=1, max_size=2))
    elif fam == "nested":
        rules = [["start", ["seq", [["nt", "rec"], ["star", ["seq", [["lit", ","], ["nt", "rec"]]]]]]],
                 ["rec", ["seq", [["nt", "cc"], ["lit", ":"], ["nt", "tag"]]]],
                 ["cc", ["seq", [["nt", "number"], ["nt", "check"]]]],
                 ["number", ["rep", DIG, 2, 2]], ["check", DIG],
                 ["tag", ["plus", ["alt", [["lit", "a"], ["lit", "b"]]]]]]
        gens = {"cc": "add_check(str(<number>))", "number": "strip_check(str(<cc>))", "tag": "gen_tag()"}
        cons = draw(st.lists(st.sampled_from(["str(<tag>) != 'b'", "int(<number>) >= 30", "len(str(<start>)) > 8",
                                              "str(<tag>) == 'abba'"]), min_size=1, max_size=2))
    elif fam == "dep2":
        # a generator with TWO symbol arguments; the constraints aim at one of them
        rules = [["start", ["seq", [["nt", "c"], ["lit", ";"], ["nt", "w"]]]], ["c", ["plus", DIG]],
                 ["a", DIG], ["b", ["seq", [DIG, DIG]]], ["w", ["plus", ["alt", [["lit", "p"], ["lit", "q"]]]]]]
        gens = {"c": "join2(str(<a>), str(<b>))"}
        cons = draw(st.lists(st.sampled_from(["int(<a>) >= 5", "str(<a>) == '7'", "<a> == '3'", "int(<b>) % 2 == 0", "str(<b>) == '40'",
                                              "len(str(<w>)) >= 2", "int(<c>) % 3 == 0", "int(<a>) + int(<b>) > 60"]), min_size=1, max_size=2))
    elif fam == "partial":
        # a dependent generator whose value fits the rule for some argument values only
        rules = [["start", ["seq", [["nt", "p"], ["lit", ";"], ["nt", "w"]]]], ["p", ["seq", [DIG, DIG]]],
                 ["a", DIG], ["w", ["plus", ["alt", [["lit", "p"], ["lit", "q"]]]]]]
        gens = {"p": "pad(str(<a>))"}
        cons = draw(st.lists(st.sampled_from(["int(<a>) >= 8", "str(<a>) == '9'", "<a> == '9'", "int(<a>) % 3 == 0", "len(str(<w>)) >= 2"]),
                             min_size=1, max_size=2))
    elif fam == "subfield":
        # constraints aimed at a sub-symbol of a generated field
        rules = [["start", ["seq", [["nt", "k3"], ["lit", ";"], ["nt", "w"]]]], ["k3", ["seq", [["nt", "hi"], ["nt", "lo"]]]],
                 ["hi", DIG], ["lo", ["seq", [DIG, DIG]]], ["w", ["plus", ["alt", [["lit", "p"], ["lit", "q"]]]]]]
        gens = {"k3": "gen_pick()"}
        cons = draw(st.lists(st.sampled_from(["<hi> == '7'", "str(<hi>) == '7'", "int(<hi>) == 7", "str(<lo>) == '00'", "<lo> == '42'",
                                              "int(<lo>) > 90", "len(str(<w>)) >= 2"]), min_size=1, max_size=2))
    elif fam == "crep":
        rules = [["start", ["seq", [["nt", "len"], ["lit", ":"], ["crep", ["seq", [["nt", "n"], ["lit", ";"]]], "int(<len>)"]]]],
                 ["len", ["alt", [["lit", c] for c in "0123"]]], ["n", ["plus", DIG]]]
        gens = {"n": f"gen_n({lo}, 30)"}
        cons = draw(st.lists(st.sampled_from(["int(<len>) >= 2", "int(<n>) % 2 == 0"]), max_size=1))
    else:
        rules = [["start", ["seq", [["nt", "bad"], ["lit", "-"], ["nt", "w"]]]], ["bad", DIG],
                 ["w", ["plus", ["alt", [["lit", "p"], ["lit", "q"]]]]]]
        gens = {"bad": f"gen_bad({draw(st.sampled_from([0.2, 0.5, 1.0]))})"}
        cons = ["len(str(<w>)) >= 2"]
    spec = {"rules": rules, "mode": "text", "code": CODE, "generators": gens, "constraints": cons, "family": fam}
    settings = {"population_size": draw(st.sampled_from([4, 8, 16])), "max_nodes": draw(st.sampled_from([20, 50])),
                "mutation_rate": draw(st.sampled_from([0.3, 0.9])), "crossover_rate": draw(st.sampled_from([0.5, 1.0])),
                "random_seed": draw(st.integers(0, 10**6))}
    return {"spec": spec, "settings": settings, "gens": draw(st.integers(1, 8)), "desired": draw(st.integers(2, 8)),
            "direct": draw(st.lists(st.tuples(st.sampled_from(["mutate", "crossover", "replace"]), st.integers(0, 30)), max_size=5))}


def generated_nodes(t: Any, inside: bool = False) -> list[Any]:
    out = []
    if t.symbol.is_non_terminal and t.symbol.name() in GENERATED and not inside:
        out.append(t)
        inside = True
    for c in t.children:
        out.extend(generated_nodes(c, inside))
    return out


def check_tree(f: Any, fresh: Any, log: list[Any], t: Any, where: str) -> list[str]:
    msgs = []
    results: dict[str, set[str]] = {}
    for sym, _args, res in log:
        results.setdefault(sym, set()).add(res)
    for node in generated_nodes(t):
        sym = node.symbol.name()
        text = str(node)
        if text not in results.get(sym, set()):
            msgs.append(f"{where}: {sym} holds {text!r}, which the generator never returned (returned: {sorted(results.get(sym, set()))[:8]}) in {str(t)!r}")
            continue
        if sym in REF:
            arg_syms, ref = REF[sym]
            args = []
            for a_ in arg_syms:
                srcs = [s for s in node.sources if s.symbol.is_non_terminal and s.symbol.name() == a_]
                if len(srcs) == 1:
                    args.append(str(srcs[0]))
            if len(args) == len(arg_syms):
                want = ref(*args)
                if text != want:
                    msgs.append(f"{where}: {sym} holds {text!r} but the recorded argument(s) {dict(zip(arg_syms, args))} give {want!r}")
        parsed = fresh.grammar.parse(text, node.symbol)
        if parsed is None or S.shape(parsed) != S.shape(node):
            msgs.append(f"{where}: subtree of {sym} ({S.shape(node)!r:.200}) is not the parse of the generated value {text!r}")
    return msgs


def check_case(case: dict[str, Any], ctx: Any = None) -> list[str]:
    from fandango import Fandango
    from fandango.errors import FandangoParseError
    from fandango.evolution.crossover import SimpleSubtreeCrossover
    from fandango.evolution.evaluation import Evaluator
    from fandango.evolution.mutation import SimpleMutation

    text = S.render(case["spec"])
    fam = case["spec"]["family"]
    f = Fandango(text, use_stdlib=False, use_cache=False)
    fresh = Fandango(text, use_stdlib=False, use_cache=False)
    log = f.grammar.get_spec_env()[0]["LOG"]
    msgs: list[str] = []
    emitted: list[Any] = []
    raised = None
    try:
        sols = f.fuzz(desired_solutions=case["desired"], max_generations=case["gens"],
                      solution_callback=lambda t, i: emitted.append(t), **case["settings"])
    except FandangoParseError as e:
        sols = []
        raised = "FandangoParseError"
    except Exception as e:
        sols = []
        raised = type(e).__name__
    strat = f.fandango
    ops = 0 if strat is None else strat.mutations_made + strat.crossovers_made + strat.fixes_made
    trees = {id(t): t for t in list(sols) + emitted}
    for t in trees.values():
        msgs.extend(check_tree(f, fresh, log, t, "emitted solution"))
        if ctx is not None:
            ctx.case({"s": fam, "t": str(t), "c": case["spec"]["constraints"]}, ops > 0 and bool(generated_nodes(t)),
                     ("family=" + fam,), sample={"family": fam, "constraints": case["spec"]["constraints"], "solution": str(t),
                                                 "generated": [(n.symbol.name(), str(n)) for n in generated_nodes(t)][:4], "operators": ops})
    if ctx is not None:
        ctx.count("runs")
        if raised:
            ctx.count(f"run_raised:{raised}")
    if msgs or fam == "negative":
        return msgs[:4]
    # direct operator applications on trees with generated nodes
    g = f.grammar
    random.seed(case["settings"]["random_seed"] + 1)
    try:
        pool = [g.fuzz("<start>", max_nodes=case["settings"]["max_nodes"]) for _ in range(3)]
    except Exception:
        return msgs
    # trees that enter through Fandango.parse() carry generated fields as well (their protection is re-established
    # by the reader, not by the generator): operators must respect them like freshly generated ones
    try:
        parsed = list(itertools.islice(f.parse(str(pool[0])), 1))
    except Exception:
        parsed = []
    if parsed:
        pool = [parsed[0]] + pool[:2]
        if ctx is not None:
            ctx.count("direct_on_parsed_tree")
    ev = Evaluator(g, f.constraints, 1.0, 5, 1.0)

    def drain(gen: Any) -> Any:
        try:
            while True:
                next(gen)
        except StopIteration as s_:
            return s_.value

    for op, j in case["direct"]:
        try:
            if op == "mutate":
                new = [drain(SimpleMutation().mutate(pool[0], g, ev.evaluate_individual))]
            elif op == "crossover":
                res = SimpleSubtreeCrossover().crossover(g, pool[0], pool[1])
                new = list(res) if res else []
            else:
                nts = [n for n in pool[0].flatten() if n.symbol.is_non_terminal and n.parent is not None and not n.read_only]
                if not nts:
                    continue
                n = nts[j % len(nts)]
                new = [pool[0].replace(g, n, g.fuzz(n.symbol, max_nodes=8))]
        except Exception as e:
            if ctx is not None:
                ctx.count(f"direct_raised:{op}:{type(e).__name__}")
                ctx.notes.setdefault("direct_raised_examples", [])
                if len(ctx.notes["direct_raised_examples"]) < 3:
                    ctx.notes["direct_raised_examples"].append(f"{op}: {type(e).__name__}: {str(e)[:200]} | {fam}")
            continue
        for t in new:
            msgs.extend(check_tree(f, fresh, log, t, f"tree produced by {op}"))
            if ctx is not None:
                ctx.case({"s": fam, "t": str(t), "op": op}, bool(generated_nodes(t)), ("direct:" + op,),
                         sample={"family": fam, "operator": op, "tree": str(t)})
        if msgs:
            break
        pool = (new + pool)[:3]
    return msgs[:4]


def run_shard(ctx: Any) -> None:
    n = 40 if ctx.tier == "quick" else 600

    @given(cases())
    def test(case: dict[str, Any]) -> None:
        msgs = check_case(case, ctx)
        if msgs:
            ctx.fail(case, msgs)

    ctx.run_test(test, n)


def replay(case: dict[str, Any]) -> list[str]:
    return check_case(case, None)
