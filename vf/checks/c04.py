"""C04 - parsing is sound: every yielded tree derives exactly the input.

Domain : generated specs (text and binary/bit-level) x start symbols x inputs
         (enumerated words of L(G), Fandango-generated words, near-misses made by
         1-2 edits, random strings over the alphabet), optionally with a
         string-level constraint on the start symbol.
Oracle : independent derivation checker (vf.spec.Sem.derives), serialisation ==
         input, independent recogniser (no tree for an input outside L(G)), and for
         Fandango.parse an independent evaluation of the constraint on the input.
"""

from __future__ import annotations

import itertools
import random
from typing import Any

from hypothesis import given, strategies as st

from vf import spec as S, specgen
from vf.harness import Fuel, FuelExhausted, apply_edits, perturb_strategies

PROP = "C04"
LEVEL = "exploration"
RULE = (
    "case = (generated spec, start symbol, input); inputs = enumerated words of L(G), Grammar.fuzz words, "
    "1-2 edit near-misses, random strings; non-trivial = a yielded tree of depth >= 2 for an input of "
    ">= 2 units, or a rejected near-miss whose original was accepted; distinct by hash of (spec, start, input)"
)
ASSUMPTIONS = [
    "reference derivation checker / recogniser in vf/spec.py; regex leaves judged by CPython re.fullmatch",
    "inputs are at most 8 characters (text) / 4 bytes (binary); parser runs under a deterministic state budget, budget hits are counted as inconclusive",
    "binary specs use fixed-width bit fields so byte-level terminals are aligned; regexes in binary specs are ASCII",
]

PREDS = [
    "len(s) % 2 == 0",
    "s.startswith('a')",
    "'b' in s",
    "s.count('a') <= 1",
    "len(s) >= 3",
    "not s.endswith('b')",
    "s == s[::-1]",
]


def shards(tier: str) -> int:
    return 16


def to_input(case_inp: dict[str, str]) -> Any:
    return case_inp["t"] if "t" in case_inp else bytes.fromhex(case_inp["b"])


def from_input(x: Any) -> dict[str, str]:
    return {"t": x} if isinstance(x, str) else {"b": bytes(x).hex()}


@st.composite
def ingredients(draw: Any) -> dict[str, Any]:
    mode = draw(st.sampled_from(["text", "text", "bin"]))
    sw = {"mode": mode}
    sw["non_ascii"] = draw(st.integers(0, 3)) == 0
    if mode == "text":
        sw["empty_literal"] = draw(st.integers(0, 4)) == 0
    spec = draw(specgen.grammars(sw))
    nested = mode == "text" and draw(st.integers(0, 4)) == 0
    if nested:
        # directed: the same postfix operator nested in itself around bracket-like literals; inputs in which the
        # OUTER pattern recurs where the inner repetition stands ("(())") are outside the language
        op = draw(st.sampled_from(["star", "plus", "opt", "star"]))
        x = draw(st.sampled_from([["lit", "a"], ["nt", "x"], ["alt", [["lit", "a"], ["lit", "b"]]]]))
        inner = [op, x] if op != "rep" else ["rep", x, 0, 2]
        outer = [op, ["seq", [["lit", "("], inner, ["lit", ")"]]]]
        tail = draw(st.sampled_from([[], [["lit", "a"]], [["opt", ["lit", "b"]]]]))
        spec = {"rules": [["start", ["seq", [outer] + tail] if tail else outer], ["x", ["alt", [["lit", "a"], ["lit", "b"]]]]],
                "mode": "text", "alphabet": "ab()"}
    names = [r[0] for r in spec["rules"]]
    alpha = spec["alphabet"] + ("é" if sw.get("non_ascii") else "")
    return {
        "spec": spec,
        "start": "start" if nested else draw(st.sampled_from(names[:2])),
        "nested": nested,
        "alpha": alpha,
        "idx": draw(st.lists(st.integers(0, 10**6), min_size=1, max_size=10)),
        "fuzz_seeds": draw(st.lists(st.integers(0, 10**6), min_size=0, max_size=3)),
        "controlflow_first": draw(st.lists(st.booleans(), min_size=12, max_size=12)),
        "latin1": draw(st.booleans()),
        "as_tree": draw(st.lists(st.sampled_from(["no", "no", "leaf", "bits"]), min_size=12, max_size=12)),
        "edits": draw(st.lists(perturb_strategies(), min_size=8, max_size=8)),
        "random": draw(st.lists(st.text(alphabet=alpha, max_size=6), max_size=4)) if mode == "text"
        else [b.hex() for b in draw(st.lists(st.binary(max_size=3), max_size=4))],
        "pred": draw(st.one_of(st.none(), st.sampled_from(PREDS))),
    }


def build_case(ing: dict[str, Any]) -> dict[str, Any]:
    """Turn drawn ingredients into a case with explicit inputs (replayable as is)."""
    spec = ing["spec"]
    mode = spec["mode"]
    start = ing["start"]
    sem = S.Sem(spec)
    maxlen = 6 if mode == "text" else 32
    words = [S.word_to_input(w, mode) for w in sem.enumerate_words(start, max_len=maxlen, cap=150)
             if mode == "text" or len(w) % 8 == 0]
    inputs: list[Any] = []
    if words:
        inputs += [words[i % len(words)] for i in ing["idx"]]
    inputs += fandango_words(spec, start, ing["fuzz_seeds"], mode)
    base = list(inputs)
    for w, ed in zip(base[:8], ing["edits"]):
        inputs.append(apply_edits(w, ed, ing["alpha"]))
    inputs += ing["random"] if mode == "text" else [bytes.fromhex(h) for h in ing["random"]]
    if ing.get("nested"):
        # every bracket string up to 6 characters, balanced or not, with a's in the innermost places
        import itertools as _it

        for n in range(0, 7):
            for tup in _it.product("()a", repeat=n):
                w = "".join(tup)
                if w.count("(") == w.count(")") and w not in inputs and "((" in w:
                    inputs.append(w)
    if mode == "bin" and ing["latin1"]:
        # near-miss class: the Latin-1 instead of the UTF-8 encoding of non-ASCII text
        for w in base[:6]:
            try:
                inputs.append(w.decode("utf-8").encode("latin-1"))
            except (UnicodeDecodeError, UnicodeEncodeError):
                pass
    return {"spec": spec, "start": start, "inputs": [from_input(x) for x in inputs],
            "n_orig": len(base), "pred": ing["pred"], "controlflow_first": ing["controlflow_first"],
            "as_tree": ing["as_tree"]}


def fandango_words(spec: dict[str, Any], start: str, seeds: list[int], mode: str) -> list[Any]:
    out: list[Any] = []
    if not seeds:
        return out
    try:
        f = S.load(spec)
    except Exception:
        return out
    for sd in seeds:
        random.seed(sd)
        try:
            t = f.grammar.fuzz(f"<{start}>", max_nodes=12)
            w = str(t) if mode == "text" else bytes(t)
        except Exception:
            continue
        if len(w) <= (8 if mode == "text" else 4):
            out.append(w)
    return out


def _as_tree(inp: Any, how: str) -> Any:
    """The same input handed over as a DerivationTree (one leaf, or one leaf per bit)."""
    if how == "no":
        return inp
    from fandango.language.symbols import NonTerminal, Terminal
    from fandango.language.tree import DerivationTree

    if how == "leaf" or isinstance(inp, str) or len(inp) == 0:
        return DerivationTree(NonTerminal("<input>"), [DerivationTree(Terminal(inp))])
    bits = "".join(f"{b:08b}" for b in inp)
    return DerivationTree(NonTerminal("<input>"), [DerivationTree(Terminal(int(c))) for c in bits])


def _depth(t: Any) -> int:
    return 1 + max((_depth(c) for c in t.children), default=0)


def check_case(case: dict[str, Any], ctx: Any = None) -> list[str]:
    spec = case["spec"]
    mode = spec["mode"]
    start = case["start"]
    msgs: list[str] = []
    sem = S.Sem(spec)
    text = S.render(spec)
    f = S.load(spec)
    pred = case.get("pred")
    fc = None
    if pred is not None:
        spec_c = dict(spec, constraints=[pred.replace("s", f"str(<{start}>)") if False else _pred_text(pred, start)])
        fc = S.load(spec_c, start_symbol=f"<{start}>")
    accepted_orig = False
    for i, ci in enumerate(case["inputs"]):
        inp = to_input(ci)
        units = S.input_to_units(inp, mode)
        in_lang = sem.recognise(units, start)
        cf = case.get("controlflow_first") or []
        try:
            with Fuel():
                if cf and cf[i % len(cf)]:
                    # an earlier request for the same word that asked for control-flow nodes
                    list(itertools.islice(f.grammar.parse_forest(inp, start=f"<{start}>", include_controlflow=True), 12))
                at = (case.get("as_tree") or ["no"])[i % len(case.get("as_tree") or ["no"])]
                trees = list(itertools.islice(f.grammar.parse_forest(_as_tree(inp, at), start=f"<{start}>"), 12))
        except FuelExhausted:
            if ctx is not None:
                ctx.count("inconclusive_fuel")
            continue
        except Exception as e:
            if ctx is not None:
                ctx.count(f"parse_raised:{type(e).__name__}")
            if at != "no":
                # the same input as a plain str/bytes value: the tree form must be answered the same way
                try:
                    with Fuel():
                        list(itertools.islice(f.grammar.parse_forest(inp, start=f"<{start}>"), 2))
                    msgs.append(f"input {inp!r} start <{start}>: handed over as a tree ({at}) the parse request raises "
                                f"{type(e).__name__}: {str(e)[:100]}, as a plain value it is answered")
                except BaseException:
                    pass
            continue
        for t in trees:
            probs = sem.derives(t, start)
            if probs:
                msgs.append(f"input {inp!r} start <{start}>: yielded tree is not a derivation: {probs[0]}")
            try:
                ser = str(t) if mode == "text" else bytes(t)
            except Exception as e:
                ser = f"<{type(e).__name__}: {e}>"
            if ser != inp:
                msgs.append(f"input {inp!r} start <{start}>: yielded tree serialises to {ser!r}")
            if mode != "text":
                try:
                    tb = t.to_bits()
                except Exception as e:
                    tb = f"<{type(e).__name__}>"
                if tb != units:
                    msgs.append(f"input {inp!r}: to_bits() of yielded tree is {tb!r}, input bits {units!r}")
        if trees and not in_lang:
            msgs.append(f"input {inp!r} start <{start}> is outside L(G) (reference recogniser) but {len(trees)} tree(s) were yielded")
        if fc is not None:
            s = inp if mode == "text" else inp.decode("latin-1")
            want = bool(eval(pred, {"s": s}))
            try:
                with Fuel():
                    api_trees = list(itertools.islice(fc.parse(inp), 12))
            except FuelExhausted:
                api_trees = []
            except Exception as e:
                api_trees = []
                if ctx is not None:
                    ctx.count(f"api_parse_raised:{type(e).__name__}")
            if api_trees and not want:
                msgs.append(f"Fandango.parse({inp!r}) yielded a tree although constraint `{_pred_text(pred, start)}` is false for it")
            if api_trees and not in_lang:
                msgs.append(f"Fandango.parse({inp!r}) yielded a tree for an input outside L(G)")
            for t in api_trees:
                if sem.derives(t, start):
                    msgs.append(f"Fandango.parse({inp!r}) yielded a non-derivation")
            if ctx is not None and want is False and in_lang:
                ctx.count("constraint_rejects_word_of_L")
        if ctx is not None:
            nontrivial = bool(trees) and len(units) >= 2 and max(_depth(t) for t in trees) >= 2
            if i < case.get("n_orig", 0) and trees:
                accepted_orig = True
            if i >= case.get("n_orig", 0) and not trees and accepted_orig:
                nontrivial = True
            cl = ["mode=" + mode, "accepted" if trees else "rejected", "in_L" if in_lang else "not_in_L"]
            if len(trees) > 1:
                cl.append("ambiguous")
            ctx.case({"s": text, "st": start, "i": ci}, nontrivial, tuple(cl),
                     sample={"spec": text, "start": start, "input": repr(inp), "trees": len(trees), "in_L": in_lang})
    return msgs


def _pred_text(pred: str, start: str) -> str:
    # `s` stands for str(<start>) in the predicate
    import re

    return re.sub(r"\bs\b", f"str(<{start}>)", pred)


def run_shard(ctx: Any) -> None:
    n = 40 if ctx.tier == "quick" else 600

    @given(ingredients())
    def test(ing: dict[str, Any]) -> None:
        case = build_case(ing)
        msgs = check_case(case, ctx)
        if msgs:
            ctx.fail(case, msgs)

    ctx.run_test(test, n)


def replay(case: dict[str, Any]) -> list[str]:
    return check_case(case, None)
