"""C11 - cached evaluations equal fresh evaluations.

Domain : real evolutionary runs (Fandango.fuzz) over specs with constraint sets that include
         nested quantifiers rebinding scopes, several constraints sharing symbols and computed
         repetitions (no soft constraints), x settings and seeds.  EVERY return of
         Evaluator.evaluate_individual during the run is intercepted.  A second generator
         interleaves direct constraint.fitness()/check() calls with in-place edits,
         replace(), crossover and mutation on a pool of trees with long-lived constraint objects.
Oracle : the same tree (deep copy) evaluated by a SEPARATE set of constraint objects parsed
         from the same text, whose caches are emptied before each use (every 10th comparison
         with objects parsed brand-new), must give the identical fitness (exact float), the
         identical success verdict per constraint and the same failing parts (multiset of
         paths of failing nodes).  The global RNG state is saved and restored around the
         reference evaluation (RepetitionBoundsConstraint.fitness draws a random repair goal).
"""

from __future__ import annotations

import copy
import random
from collections import Counter
from typing import Any

from hypothesis import given, strategies as st

from vf import refconstraint as R, spec as S
from vf.checks import c01, c07

PROP = "C11"
LEVEL = "exploration"
RULE = (
    "case = one evaluation of a tree during a generated run, compared with a fresh evaluation; non-trivial = the "
    "search-side answer came from a cache (key present before the call) for a tree object other than the one first "
    "evaluated under that key, or the evaluation followed an edit in the direct history; distinct by hash of "
    "(spec, tree shape)"
)
ASSUMPTIONS = [
    "reference = the same Fandango code with brand-new / cache-free constraint objects (differential against a history-free evaluation)",
    "hash coincidences between different trees are 64-bit events and not searched for",
    "no soft constraints (their scores depend on history by design)",
]


def shards(tier: str) -> int:
    return 16


@st.composite
def cases(draw: Any) -> dict[str, Any]:
    if draw(st.booleans()):
        gname = draw(st.sampled_from(sorted(c07.GRAMMARS)))
        g = c07.GRAMMARS[gname]
        fms = [draw(c07.formulas(g, [], 2, True)) for _ in range(draw(st.integers(1, 3)))]
        spec = {"rules": g["rules"], "mode": "text", "constraints": [R.text(f) for f in fms], "family": gname}
        big = False  # nested quantifiers over big trees cost cartesian products: keep the trees small
    else:
        spec = draw(c01.template_specs())
        big = True
    settings = {
        "population_size": draw(st.sampled_from([4, 8, 15])),
        "max_nodes": draw(st.sampled_from([12, 30, 60] if big else [10, 18])),
        "mutation_rate": draw(st.sampled_from([0.3, 0.8])),
        "crossover_rate": draw(st.sampled_from([0.5, 0.9])),
        "random_seed": draw(st.integers(0, 10**6)),
    }
    return {"spec": spec, "settings": settings, "gens": draw(st.integers(2, 8)), "desired": draw(st.integers(3, 10)),
            "direct": draw(st.lists(st.tuples(st.sampled_from(["eval", "eval", "edit", "swap", "swap", "replace", "crossover", "copy"]),
                                              st.sampled_from([0, 0, 0, 1, 1, 2, 3]), st.integers(0, 50)), min_size=6, max_size=24))}


def drain(gen: Any) -> Any:
    try:
        while True:
            next(gen)
    except StopIteration as s_:
        return s_.value


def clear_caches(constraints: list[Any]) -> None:
    stack = list(constraints)
    while stack:
        c = stack.pop()
        if hasattr(c, "cache"):
            c.cache.clear()
        for attr in ("constraints",):
            stack.extend(getattr(c, attr, []) or [])
        for attr in ("statement", "antecedent", "consequent"):
            x = getattr(c, attr, None)
            if x is not None:
                stack.append(x)


def summary(result: Any) -> Any:
    fitness, failing, _sugg = result
    paths = Counter()
    for ft in failing:
        try:
            p = tuple((type(s).__name__, s.index) for s in ft.tree.get_choices_path())
        except Exception:
            p = ("?",)
        paths[p] += 1
    return fitness, sorted(paths.items())


def count_summary(result: Any) -> Any:
    """Fitness and the NUMBER of failing parts (no positions)."""
    fitness, failing, _sugg = result
    return fitness, len(failing)


def check_case(case: dict[str, Any], ctx: Any = None) -> list[str]:
    from fandango import Fandango
    from fandango.evolution.evaluation import Evaluator

    text = S.render(case["spec"])
    try:
        f = Fandango(text, use_stdlib=False, use_cache=False)
        ref = Fandango(text, use_stdlib=False, use_cache=False)
    except Exception:
        if ctx is not None:
            ctx.count("spec_rejected")
        return []
    if any(type(c).__name__ == "SoftValue" for c in f.constraints):
        return []
    msgs: list[str] = []
    counter = [0]
    first_obj: dict[int, int] = {}
    orig = Evaluator.evaluate_individual

    def reference(tree: Any, by_content: bool = False) -> Any:
        counter[0] += 1
        state = random.getstate()
        try:
            if counter[0] % 10 == 0:
                r2 = Fandango(text, use_stdlib=False, use_cache=False)
                cons, gr = r2.constraints, r2.grammar
            else:
                cons, gr = ref.constraints, ref.grammar
                clear_caches(cons)
            ev = Evaluator(gr, cons, 1.0, 5, 1.0)
            return (count_summary if by_content else summary)(drain(orig(ev, copy.deepcopy(tree))))
        finally:
            random.setstate(state)

    def wrapped(self: Any, individual: Any) -> Any:
        key = hash((individual.get_root(), individual))
        cached = key in self._fitness_cache
        result = yield from orig(self, individual)
        if len(msgs) < 3:
            try:
                got = summary(result)
                want = reference(individual)
            except Exception as e:
                if ctx is not None:
                    ctx.count(f"reference_raised:{type(e).__name__}")
                return result
            if got != want:
                msgs.append(
                    f"evaluation of {str(individual)!r} during the run gives fitness {got[0]!r} with failing parts {got[1]!r:.200}; "
                    f"a fresh evaluation gives {want[0]!r} with {want[1]!r:.200}" + (" [answer came from the evaluator cache]" if cached else "")
                )
            if ctx is not None:
                other = cached and first_obj.get(key) not in (None, id(individual))
                first_obj.setdefault(key, id(individual))
                ctx.case({"s": text, "t": S.shape(individual)}, bool(other), ("in_run", "cached" if cached else "computed"),
                         sample={"spec": text[:300], "tree": str(individual), "fitness": got[0], "from_cache": cached})
        return result

    Evaluator.evaluate_individual = wrapped  # type: ignore[method-assign]
    try:
        try:
            f.fuzz(desired_solutions=case["desired"], max_generations=case["gens"], **case["settings"])
        except Exception as e:
            if ctx is not None:
                ctx.count(f"fuzz_raised:{type(e).__name__}")
    finally:
        Evaluator.evaluate_individual = orig  # type: ignore[method-assign]
    if msgs:
        return msgs
    # ---- direct history on long-lived constraint objects ----------------------------
    from fandango.evolution.crossover import SimpleSubtreeCrossover

    g = f.grammar
    random.seed(case["settings"]["random_seed"])
    try:
        pool = [g.fuzz("<start>", max_nodes=case["settings"]["max_nodes"]) for _ in range(4)]
    except Exception:
        return msgs
    ev = Evaluator(g, f.constraints, 1.0, 5, 1.0)
    edited = False
    history: list[Any] = []
    for op, i, j in case["direct"]:
        if op in ("swap", "edit"):
            # the pattern that matters for caches: evaluated, edited in place, evaluated again
            history += [("eval", i, 0), (op, i, j), ("eval", i, 0)]
        else:
            history.append((op, i, j))
    for op, i, j in history:
        t = pool[i % len(pool)]
        try:
            if op == "eval":
                got_raw = drain(ev.evaluate_individual(t))
                got = summary(got_raw)
                want = reference(t)
                if got != want and any(p == ("?",) for p, _ in got[1]):
                    # After an in-place edit that brings a tree back to an earlier value, a cache entry made for the
                    # earlier incarnation reports failing nodes that have since been detached from the tree (no
                    # position) and possibly edited.  Cached results hold node references by design, and the search
                    # itself never edits an evaluated tree in place (its operators build new trees); in-place edits
                    # are this harness's way to provoke the caches.  For such answers only the fitness and the
                    # number of failing parts are compared.
                    if ctx is not None:
                        ctx.count("failing_parts_compared_by_count")
                    got = count_summary(got_raw)
                    want = reference(t, by_content=True)
                per = []
                for c_, r_ in zip(f.constraints, ref.constraints):
                    clear_caches([r_])
                    st_ = random.getstate()
                    try:
                        # an exception is an answer too: the long-lived object may raise only if the fresh one does
                        try:
                            a_ = c_.check(t)
                        except Exception as e_:
                            a_ = f"raises {type(e_).__name__}: {str(e_)[:80]}"
                        try:
                            b_ = r_.check(copy.deepcopy(t))
                        except Exception as e_:
                            b_ = f"raises {type(e_).__name__}: {str(e_)[:80]}"
                    finally:
                        random.setstate(st_)
                    if a_ != b_:
                        per.append(f"`{c_.format_as_spec()}`: long-lived object says {a_}, fresh object says {b_}")
                if got != want or per:
                    msgs.append(f"direct history: evaluation of {str(t)!r} gives {got!r:.200}, fresh evaluation {want!r:.200}; {per[:2]}")
                    break
                if ctx is not None:
                    ctx.case({"s": text, "t": S.shape(t), "d": 1}, edited, ("direct",),
                             sample={"spec": text[:300], "tree": str(t), "after_edit": edited})
            elif op == "edit":
                nodes = [n for n in t.flatten() if n.symbol.is_non_terminal and n.children and n.parent is not None]
                if nodes:
                    n = nodes[j % len(nodes)]
                    donor = g.fuzz(n.symbol, max_nodes=6)
                    n.set_children(list(donor.children))
                    edited = True
            elif op == "swap":
                # an in-place edit that keeps the node count of the edited node: another derivation of the same size
                nodes = [n for n in t.flatten() if n.symbol.is_non_terminal and n.children and n.parent is not None
                         and all(c.symbol.is_terminal for c in n.children)]
                if nodes:
                    n = nodes[j % len(nodes)]
                    for _ in range(6):
                        donor = g.fuzz(n.symbol, max_nodes=6)
                        if donor.size() == n.size() and str(donor) != str(n):
                            n.set_children(list(donor.children))
                            edited = True
                            if ctx is not None:
                                ctx.count("same_size_edits")
                            break
            elif op == "replace":
                nodes = [n for n in t.flatten() if n.symbol.is_non_terminal and n.parent is not None and not n.read_only]
                if nodes:
                    n = nodes[j % len(nodes)]
                    pool[i % len(pool)] = t.replace(g, n, g.fuzz(n.symbol, max_nodes=6))
                    edited = True
            elif op == "crossover":
                res = SimpleSubtreeCrossover().crossover(g, t, pool[j % len(pool)])
                if res:
                    pool[i % len(pool)] = res[0]
                    edited = True
            else:
                pool[i % len(pool)] = copy.deepcopy(t)
        except Exception as e:
            if ctx is not None:
                ctx.count(f"direct_op_raised:{op}:{type(e).__name__}")
                if op == "eval":
                    import traceback

                    ctx.notes.setdefault("eval_raised", [])
                    if len(ctx.notes["eval_raised"]) < 2:
                        ctx.notes["eval_raised"].append(traceback.format_exc()[-2600:] + " | " + text[:200])
    return msgs


def run_shard(ctx: Any) -> None:
    n = 12 if ctx.tier == "quick" else 500

    @given(cases())
    def test(case: dict[str, Any]) -> None:
        msgs = check_case(case, ctx)
        if msgs:
            ctx.fail(case, msgs)

    ctx.run_test(test, n)


def replay(case: dict[str, Any]) -> list[str]:
    return check_case(case, None)
