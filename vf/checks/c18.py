"""C18 - Fandango instances in one process do not influence each other.

Domain : pairs (A, B) of generated specs and an amount of activity on A (construct, fuzz for
         g generations so that the adaptive tuner grows its limits, parse, abandoned
         generators).  Two arms per case, each in a FRESH process: arm 1 runs B only; arm 2
         runs the activity on A first, then B.  (Fresh processes rather than forked children:
         the parent of a fork would already hold fandango state of earlier cases.)
Oracle : B's solution sequence and B's parse results are identical in both arms
         (same random seed, same hash seed).
"""

from __future__ import annotations

import json
from typing import Any

from hypothesis import given, strategies as st

from vf import common, spec as S
from vf.checks import c17

PROP = "C18"
LEVEL = "exploration"
RULE = (
    "case = (activity on spec A, spec B run afterwards) vs. B alone, in two fresh processes; non-trivial = A's "
    "activity includes a search run of >= 5 generations and B uses an open-ended repetition or a recursive rule; "
    "distinct by hash of the pair"
)
ASSUMPTIONS = [
    "both arms run under the same PYTHONHASHSEED and B's random seed is set by B's own settings",
    "channels that only change behaviour on inputs longer than the generated ones (e.g. the parser's cap for {n,} built at construction time) are not observed",
]


def shards(tier: str) -> int:
    return 16


GROWERS = [
    # specs whose runs make the adaptive tuner raise the repetition cap / node budget
    "<start> ::= <x>+\n<x> ::= 'a' | 'b'\nwhere len(str(<start>)) > 60\n",
    "<start> ::= <item>{3,}\n<item> ::= 'p' | 'q' <item>?\nwhere str(<start>).count('q') > 40\n",
    "<start> ::= <n> <x>*\n<n> ::= '1' | '2'\n<x> ::= 'a'\nwhere len(str(<start>)) >= 30\n",
]
OPEN_B = [
    "<start> ::= <x>{2,}\n<x> ::= 'a' | 'b'\n",
    "<start> ::= <w>+ ';'\n<w> ::= 'x' | 'y' <w>\nwhere len(str(<start>)) >= 4\n",
    "<start> ::= <d>* '.' <d>{1,}\n<d> ::= '0' | '1'\nwhere str(<start>).count('1') >= 2\n",
]


@st.composite
def cases(draw: Any) -> dict[str, Any]:
    if draw(st.booleans()):
        a_text = draw(st.sampled_from(GROWERS))
    else:
        a_text = draw(c17.configs())["spec_text"]
    a = {"spec_text": a_text, "settings": {"population_size": draw(st.sampled_from([5, 10])), "random_seed": draw(st.integers(0, 999)),
                                         "max_nodes": draw(st.sampled_from([20, 60]))},
         "gens": draw(st.sampled_from([3, 8, 15])), "desired": draw(st.sampled_from([2, 30])), "words": draw(st.lists(st.sampled_from(["a", "ab", "aaa", "1a"]), max_size=2))}
    if draw(st.booleans()):
        b_text = draw(st.sampled_from(OPEN_B))
        b = {"spec_text": b_text, "settings": {"population_size": 8, "random_seed": draw(st.integers(0, 999)), "max_nodes": 40},
             "gens": draw(st.integers(2, 6)), "desired": 5, "words": draw(st.lists(st.sampled_from(["aa", "ab", "xy;", "0.1", "11.01", "aaaa", "ab" * 13, "x" * 0 + "y" * 24 + "x;", "." + "01" * 14]), max_size=4))}
    else:
        b = draw(c17.configs())
    return {"a": a, "b": b, "hashseed": draw(st.sampled_from([0, 7])), "repeat_a": draw(st.integers(1, 2))}


def check_case(case: dict[str, Any], ctx: Any = None) -> list[str]:
    base = {"repo_src": common.SRC, "configs": [case["b"]]}
    alone = c17.run_worker(dict(base, pad=0, delay=0.0), case["hashseed"], {}, common.VERIF_DIR)
    after = c17.run_worker(dict(base, pad=0, delay=0.0, activity=[case["a"]] * case["repeat_a"]), case["hashseed"], {}, common.VERIF_DIR)
    ra, rb = alone["report"][0], after["report"][0]
    msgs: list[str] = []
    # words with more than 20 iterations probe the parser's cap for open-ended repetitions (known finding)
    long_idx = [i for i, w in enumerate(case["b"].get("words", [])) if len(w) > 20]
    def strip(r: Any) -> Any:
        r = dict(r)
        if isinstance(r.get("parses"), list):
            r["parses"] = [p for i, p in enumerate(r["parses"]) if i not in long_idx]
        return r
    if json.dumps(strip(ra), sort_keys=True) != json.dumps(strip(rb), sort_keys=True):
        sa = [s[0] for s in ra.get("solutions", [])]
        sb = [s[0] for s in rb.get("solutions", [])]
        what = "solutions" if sa != sb else ("solution trees" if ra.get("solutions") != rb.get("solutions") else "parse results")
        msgs.append(f"B's {what} depend on earlier activity on another instance A:\n alone  : {sa[:6]!r}\n after A: {sb[:6]!r}\n"
                    f" A = {case['a']['spec_text'][:200]!r} ({case['a']['gens']} generations x{case['repeat_a']})\n B = {case['b']['spec_text'][:200]!r}")
    elif json.dumps(ra, sort_keys=True) != json.dumps(rb, sort_keys=True):
        msgs.append(f"[known:parser-cap] B's parse of a word with more than 20 iterations of an open-ended repetition depends on earlier "
                    f"activity on A; B = {case['b']['spec_text'][:120]!r}")
        if ctx is not None:
            ctx.count("known:parser-cap")
    if ctx is not None:
        openb = "{" in case["b"]["spec_text"] and ",}" in case["b"]["spec_text"] or "+" in case["b"]["spec_text"] or "*" in case["b"]["spec_text"]
        ctx.case({"a": case["a"], "b": case["b"]}, case["a"]["gens"] >= 5 and bool(openb),
                 ("a_grower" if case["a"]["spec_text"] in GROWERS else "a_generated", "b_open" if openb else "b_closed"),
                 sample={"A": case["a"]["spec_text"][:200], "A_generations": case["a"]["gens"], "B": case["b"]["spec_text"][:200],
                         "B_solutions_alone": [s[0] for s in ra.get("solutions", [])][:4]})
    return msgs


def run_shard(ctx: Any) -> None:
    n = 5 if ctx.tier == "quick" else 150

    @given(cases())
    def test(case: dict[str, Any]) -> None:
        msgs = [m for m in check_case(case, ctx) if not m.startswith("[known:")]
        if msgs:
            ctx.fail(case, msgs)

    from hypothesis import Phase

    ctx.run_test(test, n, phases=(Phase.generate,))


def classify(case: dict[str, Any], msgs: list[str]) -> Any:
    return "parser-cap" if msgs and all(m.startswith("[known:parser-cap]") for m in msgs) else None


def replay(case: dict[str, Any]) -> list[str]:
    return check_case(case, None)
