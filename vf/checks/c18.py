"""C18 - Fandango instances in one process do not influence each other.

Domain : pairs (A, B) of generated specs and an amount of activity on A (construct, fuzz for
         g generations so that the adaptive tuner grows its limits, parse, abandoned
         generators).  Two arms per case, each in a FRESH process: arm 1 runs B only; arm 2
         runs the activity on A first, then B.  (Fresh processes rather than forked children:
         the parent of a fork would already hold fandango state of earlier cases.)
Oracle : B's solution sequence and B's parse results are identical in both arms
         (same random seed, same hash seed).
"""

from __future__ import annotations

import json
from typing import Any

from hypothesis import given, strategies as st

from vf import common, spec as S
from vf.checks import c17

PROP = "C18"
LEVEL = "exploration"
RULE = (
    "case = (activity on spec A, use of spec B, order in {A then B, B constructed first, A's generator suspended around B}) "
    "vs. B alone (and A alone), each arm in a fresh process; non-trivial = A's activity includes a search run of >= 5 "
    "generations and B uses an open-ended repetition or a recursive rule, or A's python code defines a name that B uses; "
    "distinct by hash of (pair, order)"
)
ASSUMPTIONS = [
    "both arms run under the same PYTHONHASHSEED and B's random seed is set by B's own settings",
    "channels that only change behaviour on inputs longer than the generated ones (e.g. the parser's cap for {n,} built at construction time) are not observed",
]


def shards(tier: str) -> int:
    return 16


GROWERS_SOLVABLE = [
    # growers whose search also ARRIVES within 40 generations (population 20, 100 nodes): their generator can be
    # suspended after a few solutions, with the cap raised
    "<start> ::= <x>+\n<x> ::= 'a' | 'b'\nwhere len(str(<start>)) >= 30\n",
    "<start> ::= <item>{3,}\n<item> ::= 'p' | 'q' <item>?\nwhere str(<start>).count('q') >= 25\n",
    "<start> ::= <n> <x>*\n<n> ::= '1' | '2'\n<x> ::= 'a'\nwhere len(str(<start>)) >= 30\n",
]
GROWERS = [
    # specs whose runs make the adaptive tuner raise the repetition cap / node budget
    "<start> ::= <x>+\n<x> ::= 'a' | 'b'\nwhere len(str(<start>)) > 60\n",
    "<start> ::= <item>{3,}\n<item> ::= 'p' | 'q' <item>?\nwhere str(<start>).count('q') > 40\n",
    "<start> ::= <n> <x>*\n<n> ::= '1' | '2'\n<x> ::= 'a'\nwhere len(str(<start>)) >= 30\n",
]
OPEN_B = [
    "<start> ::= <x>{2,}\n<x> ::= 'a' | 'b'\n",
    "<start> ::= <w>+ ';'\n<w> ::= 'x' | 'y' <w>\nwhere len(str(<start>)) >= 4\n",
    "<start> ::= <d>* '.' <d>{1,}\n<d> ::= '0' | '1'\nwhere str(<start>).count('1') >= 2\n",
]


# A's python code defines names that B uses as builtins or does not define at all; A is read with the standard
# library (the default), so that its spec has several parts
A_CODE = [
    "max = 100\nsum = 3\n<start> ::= 'a' | 'b'\n",
    "def sorted(x):\n    return [9]\n\nscale = 3\n<start> ::= <x>+\n<x> ::= 'a'\n",
    "def check(s):\n    return True\n\ndef len(x):\n    return 2\n\n<start> ::= 'a'\n",
]
B_USES = [
    "<start> ::= <d>{1,5}\n<d> ::= '1' | '5' | '9'\nwhere max(len(str(<start>)), 3) == 3\n",
    "<start> ::= <d>+\n<d> ::= '1' | '2'\nwhere sum(int(c) for c in str(<start>)) >= 4\n",
    "<start> ::= <d>{3}\n<d> ::= '1' | '2' | '3'\nwhere sorted(str(<start>)) == list(str(<start>))\n",
    "<start> ::= <d>{1,3}\n<d> ::= '1' | '2'\nwhere len(str(<start>)) * scale >= 6\n",
    "<start> ::= <d>{1,3}\n<d> ::= '1' | '2'\nwhere check(str(<start>))\n",
]


@st.composite
def cases(draw: Any) -> dict[str, Any]:
    if draw(st.integers(0, 3)) == 0:
        # name-space channel
        a = {"spec_text": draw(st.sampled_from(A_CODE)), "use_stdlib": draw(st.sampled_from([True, True, False])),
             "settings": {"population_size": 5, "random_seed": 1, "max_nodes": 20}, "gens": 2, "desired": 2, "words": ["a"]}
        b = {"spec_text": draw(st.sampled_from(B_USES)), "use_stdlib": draw(st.booleans()),
             "settings": {"population_size": 8, "random_seed": draw(st.integers(0, 999)), "max_nodes": 30},
             "gens": 4, "desired": 4, "words": draw(st.lists(st.sampled_from(["1", "12", "123", "111", "21", "159"]), max_size=3))}
        return {"a": a, "b": b, "hashseed": draw(st.sampled_from([0, 7])), "repeat_a": 1,
                "order": draw(st.sampled_from(["a_then_b", "b_first"]))}
    order = draw(st.sampled_from(["a_then_b", "a_then_b", "b_first", "interleaved"]))
    if draw(st.booleans()) or order != "a_then_b":
        a_text = draw(st.sampled_from(GROWERS))
    else:
        a_text = draw(c17.configs())["spec_text"]
    a = {"spec_text": a_text, "settings": {"population_size": draw(st.sampled_from([5, 10])), "random_seed": draw(st.integers(0, 999)),
                                         "max_nodes": draw(st.sampled_from([20, 60]))},
         "gens": draw(st.sampled_from([3, 8, 15])), "desired": draw(st.sampled_from([2, 30])), "words": draw(st.lists(st.sampled_from(["a", "ab", "aaa", "1a"]), max_size=2))}
    if order in ("interleaved", "b_first"):
        # A's generator is suspended after a few solutions (cap raised) while B is used / A's search raises the cap
        # after B was constructed
        a["spec_text"] = draw(st.sampled_from(GROWERS_SOLVABLE))
        a["gens"] = 40
        a["settings"] = dict(a["settings"], population_size=20, max_nodes=100)
    if draw(st.booleans()) or order != "a_then_b":
        b_text = draw(st.sampled_from(OPEN_B))
        b = {"spec_text": b_text, "settings": {"population_size": 8, "random_seed": draw(st.integers(0, 999)), "max_nodes": 40},
             "gens": draw(st.integers(2, 6)), "desired": 5, "words": draw(st.lists(st.sampled_from(["aa", "ab", "xy;", "0.1", "11.01", "aaaa", "ab" * 13, "x" * 0 + "y" * 24 + "x;", "." + "01" * 14]), max_size=4))}
        if order == "b_first":
            # probes beyond the default cap of 20 iterations (strictly compared in this order)
            b["words"] = b["words"][:2] + ["ab" * 13, "." + "01" * 14, "ab" * 10]
    else:
        b = draw(c17.configs())
    return {"a": a, "b": b, "hashseed": draw(st.sampled_from([0, 7])), "repeat_a": draw(st.integers(1, 2)), "order": order,
            "take": [draw(st.integers(1, 3)), draw(st.integers(1, 4))], "parse_first": draw(st.booleans())}


def scripts(case: dict[str, Any]) -> tuple[list[Any], list[Any], Any]:
    """-> (B alone, B with A, A alone or None)"""
    a, b = case["a"], case["b"]
    order = case.get("order", "a_then_b")
    use_b = [["parse", "B"], ["fuzz", "B"]] if case.get("parse_first") else [["fuzz", "B"], ["parse", "B"]]
    alone_b = [["new", "B", b]] + use_b
    act = []
    for _ in range(case.get("repeat_a", 1)):
        act += [["new", "A", a], ["fuzz", "A"], ["parse", "A"]]
    if order == "a_then_b":
        return alone_b, act + alone_b, None
    if order == "b_first":
        # B is constructed before anything happens on A and used afterwards
        return alone_b, [["new", "B", b]] + act + use_b, None
    k, m = case.get("take", [2, 2])
    both = [["new", "A", a], ["start", "A", k], ["new", "B", b]] + use_b + [["resume", "A", m]]
    return alone_b, both, None


def check_case(case: dict[str, Any], ctx: Any = None) -> list[str]:
    base = {"repo_src": common.SRC, "pad": 0, "delay": 0.0}
    s_alone, s_both, s_a = scripts(case)
    alone = c17.run_worker(dict(base, script=s_alone), case["hashseed"], {}, common.VERIF_DIR)
    after = c17.run_worker(dict(base, script=s_both), case["hashseed"], {}, common.VERIF_DIR)
    ra, rb = alone["report"]["B"], after["report"]["B"]
    msgs: list[str] = []
    order = case.get("order", "a_then_b")
    # words with more than 20 iterations probe the parser's cap for open-ended repetitions (known finding)
    long_idx = [i for i, w in enumerate(case["b"].get("words", [])) if len(w) > 20]
    def strip(r: Any) -> Any:
        r = dict(r)
        if isinstance(r.get("parses"), list):
            r["parses"] = [p for i, p in enumerate(r["parses"]) if i not in long_idx]
        return r
    if json.dumps(strip(ra), sort_keys=True) != json.dumps(strip(rb), sort_keys=True):
        sa = [s[0] for s in ra.get("solutions", [])]
        sb = [s[0] for s in rb.get("solutions", [])]
        what = "solutions" if sa != sb else ("solution trees" if ra.get("solutions") != rb.get("solutions") else "parse results")
        msgs.append(f"B's {what} depend on earlier activity on another instance A (order {order}):\n alone  : {sa[:6]!r} {ra.get('fuzz_error', '')}\n after A: {sb[:6]!r} {rb.get('fuzz_error', '')}\n"
                    f" A = {case['a']['spec_text'][:200]!r} ({case['a']['gens']} generations x{case['repeat_a']})\n B = {case['b']['spec_text'][:200]!r}")
    elif json.dumps(ra, sort_keys=True) != json.dumps(rb, sort_keys=True) and order == "b_first":
        msgs.append(f"B (constructed before the activity on A) parses a word with more than 20 iterations differently after A's activity; "
                    f"B = {case['b']['spec_text'][:120]!r}")
    elif json.dumps(ra, sort_keys=True) != json.dumps(rb, sort_keys=True):
        msgs.append(f"[known:parser-cap] B's parse of a word with more than 20 iterations of an open-ended repetition depends on earlier "
                    f"activity on A; B = {case['b']['spec_text'][:120]!r}")
        if ctx is not None:
            ctx.count("known:parser-cap")
    if ctx is not None:
        openb = "{" in case["b"]["spec_text"] and ",}" in case["b"]["spec_text"] or "+" in case["b"]["spec_text"] or "*" in case["b"]["spec_text"]
        ctx.case({"a": case["a"], "b": case["b"], "o": order, "t": case.get("take")},
                 (case["a"]["gens"] >= 5 and bool(openb)) or case["a"]["spec_text"] in A_CODE,
                 ("a_grower" if case["a"]["spec_text"] in GROWERS + GROWERS_SOLVABLE else ("a_code" if case["a"]["spec_text"] in A_CODE else "a_generated"),
                  "b_open" if openb else "b_closed", "order=" + order),
                 sample={"A": case["a"]["spec_text"][:200], "A_generations": case["a"]["gens"], "B": case["b"]["spec_text"][:200],
                         "B_solutions_alone": [s[0] for s in ra.get("solutions", [])][:4]})
    return msgs


def run_shard(ctx: Any) -> None:
    n = 8 if ctx.tier == "quick" else 150

    @given(cases())
    def test(case: dict[str, Any]) -> None:
        msgs = [m for m in check_case(case, ctx) if not m.startswith("[known:")]
        if msgs:
            ctx.fail(case, msgs)

    from hypothesis import Phase

    ctx.run_test(test, n, phases=(Phase.generate,))


def classify(case: dict[str, Any], msgs: list[str]) -> Any:
    return "parser-cap" if msgs and all(m.startswith("[known:parser-cap]") for m in msgs) else None


def replay(case: dict[str, Any]) -> list[str]:
    return check_case(case, None)
