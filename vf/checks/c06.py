"""C06 - parsing always terminates (decided as a deterministic step bound).

Domain : generated specs biased to empty-deriving symbols under repetitions, nested
         repetitions, left/right/mutual recursion, unit cycles; ALL strings up to
         length 3 over the alphabet plus enumerated words up to length 6; request
         kinds: first tree, whole forest, prefix mode, Fandango.parse.
Oracle : Fuel - number of parse states admitted and longest child list of a state,
         both counted at Column.add; a request that exceeds MAX_STATES / MAX_CHILDREN
         is a violation.  No clock is involved.
Known  : grammars that are infinitely ambiguous (an unbounded repetition over a nullable
         body, or a derivation cycle A =>+ A) make the parser admit states for ever
         (known finding C06/infinite-ambiguity); the class is decided by a reference
         analysis of the IR and reported as KNOWN-FINDING, every other budget hit is a
         VIOLATION.
"""

from __future__ import annotations

import itertools
from typing import Any

from hypothesis import given, strategies as st

from vf import spec as S, specgen
from vf.harness import Fuel, FuelExhausted

PROP = "C06"
LEVEL = "exploration"
MAX_STATES = 20000
KNOWN_CLASS_STATES = 1500  # divergence is unbounded: any bound detects it
MAX_CHILDREN = 400
RULE = (
    "case = (generated spec, input, request kind in {first, forest, api, prefix_first, prefix_forest}); inputs = all strings of "
    "length <= 3 over the spec's alphabet plus enumerated words of length <= 6; non-trivial = spec with a "
    "nullable symbol, a nested repetition, or a left/unit recursion; distinct by hash of (spec, input, kind); "
    "bound = 300 + 30*W admitted parse states, W = reference count of partial derivations of the input (x4 for prefix mode); "
    "directed families (x{n,} over a nullable operand, computed repetition under left recursion): fixed bound 40000; requests with a "
    "derived bound > 80000 are skipped and counted"
)
ASSUMPTIONS = [
    "termination is checked as a bounded-step safety property; non-termination that needs inputs longer than 6 is not detected",
    "finite but exponential ambiguity is kept small by bounding nesting depth and input length (max observed state count is in the evidence)",
    "infinitely ambiguous grammars are classified by vf.checks.c06.infinitely_ambiguous (reference analysis), not by Fandango",
]


def shards(tier: str) -> int:
    return 16


# ---------------------------------------------------------------------------
# reference analysis: is the forest of some word infinite?

def infinitely_ambiguous(spec: dict[str, Any]) -> bool:
    if spec.get("directed"):
        return False  # see directed(): finite by construction ({n,} is unrolled up to the repetition limit)
    sem = S.Sem(spec)
    found = False

    def walk(n: Any) -> None:
        nonlocal found
        if n[0] in ("seq", "alt"):
            for c in n[1]:
                walk(c)
        elif n[0] in ("star", "plus", "opt", "rep"):
            walk(n[1])
            unbounded = n[0] in ("star", "plus") or (n[0] == "rep" and n[3] is None)
            if unbounded and sem.node_nullable(n[1]):
                found = True

    for _, rhs in spec["rules"]:
        walk(rhs)
    if found:
        return True
    # unit cycles: A -> ... B ... where everything around B can vanish
    edges: dict[str, set[str]] = {name: set() for name, _ in spec["rules"]}

    def unit_targets(n: Any) -> set[str]:
        """Nonterminals B such that n =>* B with all other material nullable."""
        k = n[0]
        if k == "nt":
            return {n[1]}
        if k == "alt":
            out: set[str] = set()
            for c in n[1]:
                out |= unit_targets(c)
            return out
        if k == "seq":
            out = set()
            for i, c in enumerate(n[1]):
                if all(sem.node_nullable(o) for j, o in enumerate(n[1]) if j != i):
                    out |= unit_targets(c)
            return out
        if k in ("star", "plus", "opt", "rep"):
            return unit_targets(n[1])
        return set()

    for name, rhs in spec["rules"]:
        edges[name] = unit_targets(rhs) & set(edges)
    # cycle detection
    color: dict[str, int] = {}

    def dfs(u: str) -> bool:
        color[u] = 1
        for v in edges[u]:
            if color.get(v) == 1:
                return True
            if v not in color and dfs(v):
                return True
        color[u] = 2
        return False

    return any(dfs(u) for u in list(edges) if u not in color)


def left_recursive(spec: dict[str, Any]) -> bool:
    """Some nonterminal can derive a sentential form that starts with itself."""
    sem = S.Sem(spec)
    edges: dict[str, set[str]] = {name: set() for name, _ in spec["rules"]}

    def left_targets(n: Any) -> set[str]:
        k = n[0]
        if k == "nt":
            return {n[1]}
        if k == "alt":
            out: set[str] = set()
            for c in n[1]:
                out |= left_targets(c)
            return out
        if k == "seq":
            out = set()
            for c in n[1]:
                out |= left_targets(c)
                if not sem.node_nullable(c):
                    break
            return out
        if k in ("star", "plus", "opt", "rep"):
            return left_targets(n[1])
        return set()

    for name, rhs in spec["rules"]:
        edges[name] = left_targets(rhs) & set(edges)
    color: dict[str, int] = {}

    def dfs(u: str) -> bool:
        color[u] = 1
        for v in edges[u]:
            if color.get(v) == 1:
                return True
            if v not in color and dfs(v):
                return True
        color[u] = 2
        return False

    return any(dfs(u) for u in list(edges) if u not in color)


def known_class(spec: dict[str, Any], kind: str) -> Any:
    if spec.get("directed"):
        return "prefix-mode" if kind.startswith("prefix") else None
    if infinitely_ambiguous(spec):
        return "infinite-ambiguity"
    if kind.startswith("prefix") and (left_recursive(spec) or has_unbounded_or_recursion(spec)):
        return "prefix-mode"
    return None


def has_unbounded_or_recursion(spec: dict[str, Any]) -> bool:
    u = specgen.uses(spec)
    return bool(u & {"star", "plus", "openrep", "recursion"})


# ---------------------------------------------------------------------------

@st.composite
def ingredients(draw: Any) -> dict[str, Any]:
    shape = draw(st.sampled_from(["plain", "nullable_rep", "unit", "leftrec", "nested"]))
    sw: dict[str, Any] = {"mode": "text", "open_reps": False, "max_rules": 3,
                          "regex": draw(st.sampled_from(["none", "guarded", "empty"])),
                          "empty_literal": draw(st.booleans())}
    if shape == "nullable_rep":
        sw["nullable_under_rep"] = True
    spec = draw(specgen.grammars(sw))
    a = spec["alphabet"][0]
    names = [r[0] for r in spec["rules"]]
    if shape == "unit":
        i = draw(st.integers(0, len(names) - 1))
        j = draw(st.integers(0, len(names) - 1))
        name, rhs = spec["rules"][i]
        spec["rules"][i] = [name, ["alt", [rhs, ["nt", names[j]]]]]
    elif shape == "leftrec":
        i = draw(st.integers(0, len(names) - 1))
        name, rhs = spec["rules"][i]
        form = draw(st.integers(0, 2))
        rec = [["seq", [["nt", name], ["lit", a]]],
               ["seq", [["nt", name], ["lit", a], ["nt", name]]],
               ["seq", [["nt", name], ["nt", name], ["lit", a]]]][form]
        spec["rules"][i] = [name, ["alt", [rhs, rec]]]
    elif shape == "nested":
        i = draw(st.integers(0, len(names) - 1))
        name, rhs = spec["rules"][i]
        inner = draw(st.sampled_from(["star", "plus"]))
        outer = draw(st.sampled_from(["star", "plus"]))
        spec["rules"][i] = [name, ["seq", [[outer, [inner, ["lit", a]]], rhs]]]
    elif shape == "nullable_rep":
        # make sure the named shape is present: (x?)* , (x*)* , <n>* with <n> ::= x? (n declared later: stays productive)
        i = draw(st.integers(0, len(names) - 1))
        name, rhs = spec["rules"][i]
        bodies = [["opt", ["lit", a]], ["star", ["lit", a]]]
        if i < len(names) - 1:
            bodies.append(["nt", names[-1]])
        body = draw(st.sampled_from(bodies))
        if body[0] == "nt":
            ln, lr = spec["rules"][-1]
            spec["rules"][-1] = [ln, ["opt", lr]]
        spec["rules"][i] = [name, ["seq", [[draw(st.sampled_from(["star", "plus"])), body], rhs]]]
    return {"spec": spec, "shape": shape, "enum_idx": draw(st.lists(st.integers(0, 10**6), max_size=6))}


DIRECTED_BOUND = 40000
HEAVY = 80000  # requests whose derived bound exceeds this are skipped and counted


@st.composite
def directed(draw: Any) -> dict[str, Any]:
    """Two shapes the general generator does not reach.
    open_nullable: x{n,} over an empty-deriving operand.  The parser unrolls {n,} up to the repetition limit (20), so
        the forests are finite (unlike x* over the same operand); the reference count W does not model the unrolling,
        so these cases get the fixed bound DIRECTED_BOUND (observed: <= 3500 states for inputs of <= 2 characters).
    leftrec_crep: a computed-bound repetition reachable from a left-recursive rule (while such a repetition is
        predicted the parser rebuilds the tree of the prefix by walking from the current state up to the start state)."""
    if draw(st.booleans()):
        body = draw(st.sampled_from([["opt", ["lit", "x"]], ["nt", "a"], ["alt", [["lit", "z"], ["lit", ""]]],
                                     ["rep", ["lit", "x"], 0, 2]]))
        rep = ["rep", body, draw(st.integers(0, 3)), None]
        tail = draw(st.sampled_from([[], [["lit", "y"]], [["nt", "a"]]]))
        head = draw(st.sampled_from([[], [["lit", "y"]]]))
        parts = head + [rep] + tail
        rules = [["start", ["seq", parts] if len(parts) > 1 else rep], ["a", ["opt", ["lit", "x"]]]]
        inputs = ["", "x", "y", "z", "xy", "yx", "xx", "yy", "zy", "yxy"][: 6 + draw(st.integers(0, 4))]
        return {"spec": {"rules": rules, "mode": "text", "alphabet": "xyz", "directed": "open_nullable"},
                "shape": "open_nullable", "inputs": inputs}
    rec = draw(st.sampled_from([
        ["alt", [["seq", [["nt", "list"], ["nt", "item"]]], ["nt", "item"]]],
        ["alt", [["nt", "item"], ["seq", [["nt", "list"], ["lit", ","], ["nt", "item"]]]]],
        ["alt", [["seq", [["nt", "list"], ["nt", "list"]]], ["nt", "item"]]],
    ]))
    item = draw(st.sampled_from([
        ["seq", [["nt", "len"], ["crep", ["nt", "c"], "int(<len>)"]]],
        ["seq", [["nt", "len"], ["lit", ":"], ["crep", ["nt", "c"], "int(<len>)"], ["lit", ";"]]],
    ]))
    rules = [["start", ["nt", "list"]], ["list", rec], ["item", item],
             ["len", ["alt", [["lit", "0"], ["lit", "1"], ["lit", "2"]]]], ["c", ["alt", [["lit", "a"], ["lit", "b"]]]]]
    sep = ":" if len(item[1]) == 4 else ""
    end = ";" if sep else ""
    comma = "," if rec[1][1][0] == "seq" and len(rec[1][1][1]) == 3 else ""
    recs = [f"0{sep}{end}", f"1{sep}a{end}", f"2{sep}ab{end}"]
    inputs = ["", recs[1], recs[2], recs[1] + comma + recs[0], recs[2] + comma + recs[1], "1", f"2{sep}a{end}", "a", recs[1] + comma]
    return {"spec": {"rules": rules, "mode": "text", "alphabet": "ab012", "directed": "leftrec_crep"},
            "shape": "leftrec_crep", "inputs": inputs[: 5 + draw(st.integers(0, 4))]}


def build_case(ing: dict[str, Any]) -> dict[str, Any]:
    if "inputs" in ing:
        return ing
    spec = ing["spec"]
    alpha = spec["alphabet"][:2]
    inputs = ["".join(t) for n in range(0, 4) for t in itertools.product(alpha, repeat=n)]
    inputs = [w for w in inputs if len(w) <= 2 or (len(w) + sum(map(ord, w))) % 3 == 0]
    if not infinitely_ambiguous(spec):
        words = S.Sem(spec).enumerate_words("start", max_len=6, cap=60)
        for i in ing["enum_idx"]:
            if words:
                w = words[i % len(words)]
                if w not in inputs:
                    inputs.append(w)
    return {"spec": spec, "shape": ing["shape"], "inputs": inputs}


KINDS = ["first", "forest", "api", "prefix_first", "prefix_forest"]
TREE_CAP = 60


def budget(spec: dict[str, Any], sem: Any, inp: str, kind: str, inf: bool) -> tuple[int, int]:
    """Step bound for one request, derived from the reference count W of partial
    derivations of the input (finitely ambiguous grammars); fixed for the known classes."""
    if inf:
        return KNOWN_CLASS_STATES, 0
    if spec.get("directed"):
        return DIRECTED_BOUND, 0
    _, w, conv = sem.derivation_counts(inp)
    if not conv:
        return MAX_STATES, w
    b = 300 + 30 * w
    if kind.startswith("prefix"):
        b *= 4
    return b, w


def _size(n: Any) -> int:
    if n[0] in ("seq", "alt"):
        return 1 + sum(_size(c) for c in n[1])
    if n[0] in ("star", "plus", "opt", "rep"):
        return 1 + _size(n[1])
    return 1


def run_request(f: Any, kind: str, inp: str, max_states: int = MAX_STATES) -> tuple[int, int, int]:
    from fandango.language.grammar import ParsingMode

    with Fuel(max_states, 10**9) as fuel:
        # derivation-tree nodes built: observed <= 7.7 per admitted state on terminating requests
        fuel.max_nodes = 20 * max_states + 50000
        if kind == "first":
            t = f.grammar.parse(inp)
            n = 0 if t is None else 1
        elif kind == "forest":
            n = sum(1 for _ in itertools.islice(f.grammar.parse_forest(inp), TREE_CAP))
        elif kind == "prefix_forest":
            n = sum(1 for _ in itertools.islice(f.parse(inp, prefix=True), TREE_CAP))
        elif kind == "prefix_first":
            n = sum(1 for _ in itertools.islice(f.parse(inp, prefix=True), 1))
        else:
            n = sum(1 for _ in itertools.islice(f.parse(inp), TREE_CAP))
    run_request.last_nodes = fuel.nodes  # type: ignore[attr-defined]
    return n, fuel.states, fuel.children


def check_case(case: dict[str, Any], ctx: Any = None) -> list[str]:
    """Messages are prefixed with [known:<key>] when the reference analysis puts the
    (spec, request kind) into a known-finding class."""
    spec = case["spec"]
    msgs: list[str] = []
    text = S.render(spec)
    inf = infinitely_ambiguous(spec)
    lrec = left_recursive(spec)
    sem = S.Sem(spec)
    nontrivial = (inf or lrec or case.get("shape") in ("leftrec", "nested", "unit", "nullable_rep")
                  or any(sem._nullable.values()))
    known_hit: set[str] = set()
    for ii, inp in enumerate(case["inputs"]):
        for kind in KINDS:
            kc = known_class(spec, kind)
            if kc is not None and (kc in known_hit or ii >= 2):
                continue  # one exemplar per known class and spec; keep the budget for the rest
            f = S.load(spec)  # fresh object: no cache effects between requests
            bud, w = budget(spec, sem, inp, kind, kc is not None)
            if bud > HEAVY:
                # finitely but heavily ambiguous: the derived bound is beyond what a quick run can afford
                if ctx is not None:
                    ctx.count("skipped_heavy_ambiguity")
                continue
            try:
                n, states, children = run_request(f, kind, inp, bud)
            except FuelExhausted as e:
                tag = f"[known:{kc}] " if kc else ""
                msgs.append(
                    f"{tag}{kind} request for input {inp!r} exceeded the step bound ({e.what}: "
                    f"{e.states} states admitted, longest child list {e.max_children}; "
                    f"bound {bud} from reference count W={w} of partial derivations)"
                )
                if kc:
                    known_hit.add(kc)
                if ctx is not None:
                    ctx.count(f"budget_hit:{kc or 'UNEXPECTED'}")
                if not kc:
                    return msgs  # one unexpected hit decides the case; further diverging requests only cost time
                continue
            except RecursionError:
                if ctx is not None:
                    ctx.count("recursion_error")
                continue
            except Exception as e:
                if ctx is not None:
                    ctx.count(f"raised:{type(e).__name__}")
                continue
            if ctx is not None:
                if n < TREE_CAP and kc is None:
                    ratio = round(states / max(bud, 1), 3)
                    ctx.notes["max_fraction_of_bound_used"] = max(ctx.notes.get("max_fraction_of_bound_used", 0), ratio)
                if n < TREE_CAP:
                    ctx.notes["max_states_terminating"] = max(ctx.notes.get("max_states_terminating", 0), states)
                    ctx.notes["max_tree_nodes_per_state"] = max(ctx.notes.get("max_tree_nodes_per_state", 0),
                                                                round(getattr(run_request, "last_nodes", 0) / max(states, 1), 1))
                    ctx.notes["max_tree_nodes_terminating"] = max(ctx.notes.get("max_tree_nodes_terminating", 0),
                                                                  getattr(run_request, "last_nodes", 0))
                    ctx.notes["max_children_terminating"] = max(ctx.notes.get("max_children_terminating", 0), children)
                else:
                    ctx.count("forest_cut_at_cap")
                ctx.case({"s": text, "i": inp, "k": kind}, nontrivial,
                         ("shape=" + str(case.get("shape")), "inf_ambiguous" if inf else "finite",
                          "left_recursive" if lrec else "not_left_recursive", "kind=" + kind),
                         sample={"spec": text, "input": inp, "kind": kind, "trees": n, "states": states})
    return msgs


def classify(case: dict[str, Any], msgs: list[str]) -> Any:
    keys = {m[len("[known:"):m.index("]")] for m in msgs if m.startswith("[known:")}
    if msgs and all(m.startswith("[known:") for m in msgs) and len(keys) == 1:
        return keys.pop()
    return None


def evidence_extra(cov: dict[str, Any]) -> dict[str, Any]:
    # merged with max() by the runner only for keys starting with max_
    return {"bound_states": MAX_STATES, "bound_children": MAX_CHILDREN}


def run_shard(ctx: Any) -> None:
    n = 10 if ctx.tier == "quick" else 300

    @given(st.one_of(ingredients(), ingredients(), ingredients(), directed()))
    def test(ing: dict[str, Any]) -> None:
        case = build_case(ing)
        msgs = check_case(case, ctx)
        unknown = [m for m in msgs if not m.startswith("[known:")]
        for key in {m[len("[known:"):m.index("]")] for m in msgs if m.startswith("[known:")}:
            ctx.count(f"known:{key}")  # known class: counted, the search goes on behind it
        if unknown:
            bad_inputs = [i for i in case["inputs"] if any(f"input {i!r} " in m for m in unknown)][:1]
            ctx.fail(dict(case, inputs=bad_inputs or case["inputs"]), unknown)

    from hypothesis import Phase

    # no hypothesis shrinking: a diverging case costs seconds per execution; the failing
    # (input, kind) is already isolated in the message and the case is cut down in fail_min
    ctx.run_test(test, n, phases=(Phase.generate,))


def replay(case: dict[str, Any]) -> list[str]:
    return check_case(case, None)
