"""C19 - protocol forecasting offers exactly the grammar's continuations.

Domain : generated protocol specs: 2-3 parties, message nonterminals <S:R:m> with trivial
         bodies, control structure from alternatives, options, *, +, bounded repetitions and
         nested non-message nonterminals; the same message type used by different senders is
         a named class.  For each spec EVERY history that is a prefix of an interaction up to
         depth D is visited breadth-first.  History trees are built the way production builds
         them: start from DerivationTree(<start>), call PacketForecaster.predict, and for each
         offered option and each of its mounting paths append a freshly generated message
         (tree.append(path[1:-1], msg)), then recurse.
Oracle : vf.checks.c19 reference (regular expression over (sender, recipient, type) with
         Brzozowski derivatives, no code shared with Fandango): the set of offered
         (sender, recipient, type) equals first(derivative of the protocol by the history);
         complete_trees is non-empty <=> the derivative is nullable; every mounting path leads
         to a history tree whose message sequence is h.x.
"""

from __future__ import annotations

import copy
from typing import Any

from hypothesis import given, strategies as st

from vf import spec as S
from vf.harness import Fuel, FuelExhausted

PROP = "C19"
LEVEL = "exploration"
RULE = (
    "case = (generated protocol spec, message history h); all histories up to depth D are enumerated per spec; "
    "non-trivial = history of length >= 2 (after at least one repetition / alternative decision); distinct by hash "
    "of (spec, history)"
)
ASSUMPTIONS = [
    "the message-level language is computed by the reference from the spec IR (non-message nonterminals are non-recursive and inlined)",
    "party slicing is checked only in the form 'messages of other senders are removed from the offered set'",
]
PARTIES = ["A", "B", "C"]


def shards(tier: str) -> int:
    return 16


# ---------------------------------------------------------------------------
# reference: regular expressions over message symbols

EMPTY = ("empty",)
EPS = ("eps",)


def seq(a: Any, b: Any) -> Any:
    if a == EMPTY or b == EMPTY:
        return EMPTY
    if a == EPS:
        return b
    if b == EPS:
        return a
    return ("seq", a, b)


def alt(a: Any, b: Any) -> Any:
    if a == EMPTY:
        return b
    if b == EMPTY:
        return a
    if a == b:
        return a
    return ("alt", a, b)


def star(a: Any) -> Any:
    if a in (EMPTY, EPS):
        return EPS
    return ("star", a)


def nullable(r: Any) -> bool:
    k = r[0]
    if k == "eps" or k == "star":
        return True
    if k in ("empty", "sym"):
        return False
    if k == "seq":
        return nullable(r[1]) and nullable(r[2])
    return nullable(r[1]) or nullable(r[2])


def deriv(r: Any, a: Any) -> Any:
    k = r[0]
    if k in ("empty", "eps"):
        return EMPTY
    if k == "sym":
        return EPS if r[1] == a else EMPTY
    if k == "seq":
        d = seq(deriv(r[1], a), r[2])
        return alt(d, deriv(r[2], a)) if nullable(r[1]) else d
    if k == "alt":
        return alt(deriv(r[1], a), deriv(r[2], a))
    return seq(deriv(r[1], a), r)


def first(r: Any) -> set[Any]:
    k = r[0]
    if k in ("empty", "eps"):
        return set()
    if k == "sym":
        return {r[1]}
    if k == "seq":
        return first(r[1]) | (first(r[2]) if nullable(r[1]) else set())
    if k == "alt":
        return first(r[1]) | first(r[2])
    return first(r[1])


def symbols(r: Any) -> set[Any]:
    if r[0] == "sym":
        return {r[1]}
    if r[0] in ("seq", "alt"):
        return symbols(r[1]) | symbols(r[2])
    if r[0] == "star":
        return symbols(r[1])
    return set()


def nullable_after_group(proto: dict[str, Any]) -> bool:
    """Some sequence has an item of >= 2 messages (group or nonterminal) followed by a nullable item."""
    rules = {name: rhs for name, rhs in proto["rules"]}

    def multi(n: Any) -> bool:
        k = n[0]
        if k == "nt":
            return False if len(n) > 2 else multi(rules[n[1]]) or True
        if k == "seq":
            return len(n[1]) >= 2 or any(multi(c) for c in n[1])
        if k == "alt":
            return any(multi(c) for c in n[1])
        return multi(n[1]) or k in ("star", "plus", "rep")

    found = False

    def starts_nullable(d: Any) -> bool:
        """d is nullable or can begin with an empty nullable element (groups flatten: `(<s>? <m>)` begins with <s>?)."""
        if _nullable_ir(d, rules):
            return True
        if d[0] == "seq":
            return bool(d[1]) and starts_nullable(d[1][0])
        if d[0] == "alt":
            return any(starts_nullable(c) for c in d[1])
        if d[0] == "nt" and len(d) == 2:
            return starts_nullable(rules[d[1]])
        if d[0] in ("plus", "rep"):
            return starts_nullable(d[1])
        return False

    def walk(n: Any) -> None:
        nonlocal found
        if n[0] == "seq":
            for i, c in enumerate(n[1][:-1]):
                if multi(c) and any(starts_nullable(d) for d in n[1][i + 1:]):
                    found = True
            for c in n[1]:
                walk(c)
        elif n[0] == "alt":
            for c in n[1]:
                walk(c)
        elif n[0] in ("opt", "star", "plus", "rep"):
            walk(n[1])
            if n[0] in ("star", "plus", "rep") and multi(n[1]):
                found = True  # the next iteration plays the role of the following nullable item

    for _, rhs in proto["rules"]:
        walk(rhs)
    return found


def to_regex(node: Any, rules: dict[str, Any]) -> Any:
    k = node[0]
    if k == "nt":
        if len(node) > 2:
            if node[2] != "A" and node[3] != "A":
                # a message between two external parties: invisible to the fuzzer side, cut out of the grammar when
                # the spec is loaded (truncate_invisible_packets / slice_parties)
                return EPS
            return ("sym", (node[2], node[3], node[1]))
        return to_regex(rules[node[1]], rules)
    if k == "seq":
        r = EPS
        for c in node[1]:
            r = seq(r, to_regex(c, rules))
        return r
    if k == "alt":
        r = EMPTY
        for c in node[1]:
            r = alt(r, to_regex(c, rules))
        return r
    if k == "opt":
        return alt(EPS, to_regex(node[1], rules))
    if k == "star":
        return star(to_regex(node[1], rules))
    if k == "plus":
        x = to_regex(node[1], rules)
        return seq(x, star(x))
    if k == "rep":
        x = to_regex(node[1], rules)
        r = EPS
        for _ in range(node[2]):
            r = seq(r, x)
        if node[3] is None:
            return seq(r, star(x))
        for _ in range(node[3] - node[2]):
            r = seq(r, alt(EPS, x))
        return r
    raise ValueError(k)


# ---------------------------------------------------------------------------
# generation / rendering

@st.composite
def proto_expr(draw: Any, msgs: list[Any], subs: list[str], depth: int) -> Any:
    opts = ["msg", "msg", "msg"]
    if subs:
        opts.append("sub")
    if depth > 0:
        opts += ["seq", "seq", "alt", "opt", "star", "plus", "rep"]
    k = draw(st.sampled_from(opts))
    if k == "msg":
        m = draw(st.sampled_from(msgs))
        return ["nt", m[2], m[0], m[1]]
    if k == "sub":
        return ["nt", draw(st.sampled_from(subs))]
    if k == "seq":
        return ["seq", [draw(proto_expr(msgs, subs, depth - 1)) for _ in range(draw(st.integers(2, 3)))]]
    if k == "alt":
        return ["alt", [draw(proto_expr(msgs, subs, depth - 1)) for _ in range(draw(st.integers(2, 3)))]]
    body = draw(proto_expr(msgs, subs, depth - 1))
    if k in ("opt", "star", "plus"):
        return [k, body]
    if draw(st.integers(0, 3)) == 0:
        return ["rep", body, draw(st.integers(0, 3)), None]  # {n,}
    lo = draw(st.integers(0, 2))
    hi = lo + draw(st.integers(0, 2))
    return ["rep", body, lo, max(hi, 1)]


@st.composite
def protocols(draw: Any) -> dict[str, Any]:
    n_parties = draw(st.integers(2, 3))
    parties = PARTIES[:n_parties]
    types = ["m1", "m2", "m3", "m4"][: draw(st.integers(2, 4))]
    msgs = []
    # party A is the fuzzer side; messages between two external parties are invisible to
    # Fandango (and pruned from the grammar), so every message involves A
    def pair() -> tuple[str, str]:
        other = draw(st.sampled_from(parties[1:]))
        return ("A", other) if draw(st.booleans()) else (other, "A")

    for t in types:
        s, r = pair()
        msgs.append((s, r, t))
    if draw(st.booleans()):
        # the same message type used by another sender (named class)
        s, r, t = msgs[0]
        for _ in range(3):
            s2, r2 = pair()
            if s2 != s:
                msgs.append((s2, r2, t))
                break
    invisible = False
    if n_parties == 3 and draw(st.integers(0, 2)) == 0:
        # messages between the two external parties (invisible to A: sliced away at load time), often adjacent
        invisible = True
    if n_parties == 3 and draw(st.integers(0, 1)) == 0:
        # the same sender sends the same message type to two different recipients (named class)
        t = draw(st.sampled_from(types))
        msgs = [m for m in msgs if m[2] != t] + [("A", "B", t), ("A", "C", t)]
    rules = []
    subs = ["s1", "s2"][: draw(st.integers(0, 2))]
    later: list[str] = []
    for name in reversed(subs):
        rules.insert(0, [name, draw(proto_expr(msgs, later, 1))])
        later = [name] + later
    start = draw(proto_expr(msgs, subs, 2))
    rules.insert(0, ["start", start])
    proto = {"rules": rules, "parties": parties, "types": types}
    _guard_nullable_reps(proto, msgs[0])
    if invisible:
        # one to three ADJACENT invisible messages inside a sequence of the start rule, next to visible ones (a
        # wholly invisible alternative or repetition body is not generated: the documentation only says that the
        # other parties are excluded, not what an alternative without any remaining message means)
        proto["types"] = types + ["x1", "x2"]
        inv = [["nt", "x1", "B", "C"], ["nt", "x2", "C", "B"], ["nt", "x1", "B", "C"]][: draw(st.integers(1, 3))]
        name, rhs = proto["rules"][0]
        items = list(rhs[1]) if rhs[0] == "seq" else [rhs]
        pos = draw(st.integers(0, len(items)))
        proto["rules"][0] = [name, ["seq", items[:pos] + inv + items[pos:]]]
    return proto


def _nullable_ir(n: Any, rules: dict[str, Any]) -> bool:
    k = n[0]
    if k == "nt":
        return False if len(n) > 2 else _nullable_ir(rules[n[1]], rules)
    if k == "seq":
        return all(_nullable_ir(c, rules) for c in n[1])
    if k == "alt":
        return any(_nullable_ir(c, rules) for c in n[1])
    if k in ("opt", "star"):
        return True
    if k == "plus":
        return _nullable_ir(n[1], rules)
    return n[2] == 0 or _nullable_ir(n[1], rules)


def _guard_nullable_reps(proto: dict[str, Any], m: Any) -> None:
    """An unbounded repetition over a body that can be empty makes the parser diverge (known
    finding C06/infinite-ambiguity) - excluded here by construction."""
    rules = {name: rhs for name, rhs in proto["rules"]}

    def walk(n: Any) -> None:
        if n[0] in ("seq", "alt"):
            for c in n[1]:
                walk(c)
        elif n[0] in ("opt", "star", "plus", "rep"):
            walk(n[1])
            if n[0] in ("star", "plus", "rep") and _nullable_ir(n[1], rules):
                n[1] = ["seq", [["nt", m[2], m[0], m[1]], n[1]]]

    for _ in range(3):
        for _, rhs in proto["rules"]:
            walk(rhs)


def render(proto: dict[str, Any]) -> str:
    def r(n: Any, top: bool = False) -> str:
        k = n[0]
        if k == "nt":
            if len(n) > 2:
                return f"<{n[2]}:{n[3]}:{n[1]}>"
            return f"<{n[1]}>"
        if k == "seq":
            s = " ".join(r(c) for c in n[1])
            return s if top else f"({s})"
        if k == "alt":
            s = " | ".join(r(c) for c in n[1])
            return s if top else f"({s})"
        if k in ("opt", "star", "plus"):
            x = r(n[1])
            if n[1][0] in ("opt", "star", "plus", "rep"):
                x = f"({x})"
            return x + {"opt": "?", "star": "*", "plus": "+"}[k]
        x = r(n[1])
        if n[1][0] in ("opt", "star", "plus", "rep"):
            x = f"({x})"
        if n[3] is None:
            return x + f"{{{n[2]},}}"
        return x + (f"{{{n[2]}}}" if n[2] == n[3] else f"{{{n[2]},{n[3]}}}")

    lines = [f"<{name}> ::= {r(rhs, top=True)}" for name, rhs in proto["rules"]]
    for t in proto["types"]:
        lines.append(f"<{t}> ::= '{t};'")
    code = []
    for i, p in enumerate(proto["parties"]):
        mode = "OPEN" if i == 0 else "EXTERNAL"
        code.append(f"class {p}(FandangoParty):\n    def __init__(self):\n        super().__init__(connection_mode=ConnectionMode.{mode})\n"
                    f"    def send(self, message, recipient):\n        pass\n")
    return "\n".join(lines) + "\n\n" + "\n".join(code)


# ---------------------------------------------------------------------------

def offered(pred: Any) -> set[Any]:
    out = set()
    for party, fnt in pred.parties_to_packets.items():
        for nt, pkt in fnt.nt_to_packet.items():
            out.add((pkt.node.sender, pkt.node.recipient, nt.name()[1:-1]))
    return out


def history_of(tree: Any) -> list[Any]:
    return [(m.sender, m.recipient, m.msg.symbol.name()[1:-1]) for m in tree.protocol_msgs()]


def check_case(case: dict[str, Any], ctx: Any = None) -> list[str]:
    from fandango import Fandango
    from fandango.io.navigation.packetforecaster import PacketForecaster
    from fandango.language.symbols import NonTerminal
    from fandango.language.tree import DerivationTree

    proto = case["proto"]
    text = render(proto)
    try:
        f = Fandango(text, use_stdlib=False, use_cache=False)
    except Exception as e:
        if ctx is not None:
            ctx.count(f"spec_rejected:{type(e).__name__}")
        return []
    rules = {name: rhs for name, rhs in proto["rules"]}
    regex = to_regex(rules["start"], rules)
    if not symbols(regex):
        # every message is exchanged between external parties: nothing of the interaction is visible to the fuzzer
        # side, the sliced grammar has no start rule - not a protocol spec to forecast on
        if ctx is not None:
            ctx.count("spec_without_visible_messages")
        return []
    forecaster = PacketForecaster(f.grammar)
    depth = case["depth"]
    msgs: list[str] = []
    frontier: list[tuple[Any, Any]] = [(DerivationTree(NonTerminal("<start>")), regex)]
    seen_hist: set[Any] = set()
    visited = 0
    spent = 0
    exhausted = 0
    while frontier and visited < case.get("max_histories", 60) and not [m for m in msgs if not m.startswith("[known:")]:
        tree, r = frontier.pop(0)
        h = history_of(tree)
        if tuple(h) in seen_hist:
            continue
        seen_hist.add(tuple(h))
        visited += 1
        if spent > 40000:
            # the histories of this spec have used their share of the budget (deep copies and prefix parses grow with
            # the history): go on with the next spec
            if ctx is not None:
                ctx.count("spec_budget_used_up")
            break
        try:
            with Fuel(6000, 150) as fuel:
                fuel.max_created = 60000   # parse states created (admitted or not)
                fuel.max_nodes = 150000    # derivation-tree nodes built (deep copies of the history)
                try:
                    pred = forecaster.predict(tree)
                finally:
                    spent += fuel.states
        except FuelExhausted:
            if ctx is not None:
                ctx.count("inconclusive_fuel")
            exhausted += 1
            if exhausted >= 3:
                # forecasting on this spec keeps running into the prefix-mode divergence (known finding C06/prefix-mode)
                if ctx is not None:
                    ctx.count("spec_given_up_after_3_budget_hits")
                break
            continue
        except Exception as e:
            msgs.append(f"history {h}: predict raised {type(e).__name__}: {e}")
            break
        got = offered(pred)
        want = first(r)
        if got != want:
            extra, missing = got - want, want - got
            # known finding C19/skips-open-group: prefix-mode parsing also yields partial trees in which an unfinished
            # group is followed by an (empty) nullable element; the forecast then offers what comes after the group
            extra_known = bool(extra) and extra <= symbols(r) and nullable_after_group(proto)
            # known finding C19/merged-recipients: options are keyed by (sender, message type); the same message type
            # sent by the same party to another recipient is merged into the first one found
            missing_known = bool(missing) and all(any(g[0] == w[0] and g[2] == w[2] and g[1] != w[1] for g in got) for w in missing)
            if extra:
                tag = "[known:skips-open-group] " if extra_known else ""
                if extra_known and ctx is not None:
                    ctx.count("known:skips-open-group")
                msgs.append(f"{tag}history {h}: forecast offers {sorted(got)}, the grammar allows {sorted(want)} next (not allowed: {sorted(extra)})")
            if missing:
                tag = "[known:merged-recipients] " if missing_known else ""
                if missing_known and ctx is not None:
                    ctx.count("known:merged-recipients")
                msgs.append(f"{tag}history {h}: forecast offers {sorted(got)}, the grammar allows {sorted(want)} next (not offered: {sorted(missing)})")
        comp = len(pred.complete_trees) > 0
        if not h and nullable(r) and not comp:
            # known finding C19/empty-history: predict() never evaluates completeness for the empty history
            msgs.append(f"[known:empty-history] history []: reported incomplete, but the empty interaction is a full interaction")
            if ctx is not None:
                ctx.count("known:empty-history")
        elif comp != nullable(r):
            msgs.append(f"history {h}: reported {'complete' if comp else 'incomplete'}, but it is {'a full' if nullable(r) else 'not a full'} interaction")
        if ctx is not None:
            ctx.case({"s": text, "h": h}, len(h) >= 2, (f"len={len(h)}", "complete" if nullable(r) else "open"),
                     sample={"spec": text.split("\n\n")[0], "history": h, "offered": sorted(got), "complete": comp})
        if len(h) >= depth:
            continue
        for party, fnt in pred.parties_to_packets.items():
            for nt, pkt in fnt.nt_to_packet.items():
                sym = (pkt.node.sender, pkt.node.recipient, nt.name()[1:-1])
                for mp in sorted(pkt.paths, key=lambda p: repr(p)):
                    new_tree = copy.deepcopy(mp.tree)
                    m = f.grammar.fuzz(nt, max_nodes=5)
                    m.sender, m.recipient = pkt.node.sender, pkt.node.recipient
                    try:
                        new_tree.append(mp.path[1:-1], m)
                    except Exception as e:
                        msgs.append(f"history {h}: mounting path {mp!r} for {sym} cannot be applied: {type(e).__name__}: {e}")
                        continue
                    nh = history_of(new_tree)
                    if nh != h + [sym]:
                        msgs.append(f"history {h}: mounting {sym} along {mp!r} gives the message sequence {nh}")
                        continue
                    if sym in want:
                        frontier.append((new_tree, deriv(r, sym)))
    if ctx is not None:
        ctx.count("specs")
        ctx.count("histories", visited)
    return ([m for m in msgs if not m.startswith("[known:")] + [m for m in msgs if m.startswith("[known:")])[:6]


def run_shard(ctx: Any) -> None:
    n = 100 if ctx.tier == "quick" else 1500
    depth = 5 if ctx.tier == "quick" else 7

    import time as _time  # diagnostics only: which spec costs most (never part of a verdict)

    @given(protocols())
    def test(proto: dict[str, Any]) -> None:
        case = {"proto": proto, "depth": depth, "max_histories": 40 if ctx.tier == "quick" else 150}
        t0 = _time.time()
        all_msgs = check_case(case, ctx)
        dt = _time.time() - t0
        if dt > ctx.notes.get("max_seconds_per_spec", 0):
            ctx.notes["max_seconds_per_spec"] = round(dt, 1)
            ctx.notes["slowest_spec"] = [render(proto).split("\n\n")[0][:400]]
        msgs = [m for m in all_msgs if not m.startswith("[known:")]
        if msgs:
            ctx.fail(case, msgs)

    ctx.run_test(test, n)


def classify(case: dict[str, Any], msgs: list[str]) -> Any:
    keys = {m[len("[known:"):m.index("]")] for m in msgs if m.startswith("[known:")}
    if msgs and all(m.startswith("[known:") for m in msgs):
        return sorted(keys)[0]  # every message belongs to a listed class (possibly two of them in one spec)
    return None


def replay(case: dict[str, Any]) -> list[str]:
    return check_case(case, None)
