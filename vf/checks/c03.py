"""C03 - a tree that satisfies all constraints is accepted as a solution.

Domain : the pair (h, r) = (number of hard constraints, number of repetition-bound
         constraints) is enumerated EXHAUSTIVELY for 0 <= h, r <= 12, h + r >= 1
         (168 pairs), each with generated declaration orders / constraint mixes /
         field values; thorough adds sampled pairs up to 40.
Oracle : the tree is built by construction (a word whose every field satisfies its
         constraint, parsed back), so it satisfies everything; then
         (i)  a fresh Evaluator must YIELD it the first time it is evaluated and report
              fitness >= expected_fitness,
         (ii) Fandango.fuzz(desired_solutions=k) on the same always-solvable spec must
              return k solutions (never 'Only found N perfect solutions').
"""

from __future__ import annotations

import itertools
from typing import Any

from hypothesis import given, strategies as st

from vf import spec as S

PROP = "C03"
LEVEL = "exploration"
RULE = (
    "case = (h hard constraints, r computed-repetition constraints, declaration order, constraint mix, field values); "
    "all 168 pairs with h, r <= 12 are enumerated, each with generated mixes; non-trivial = both classes present "
    "and h + r >= 3; distinct by hash of the spec text"
)
ASSUMPTIONS = [
    "the satisfying tree is obtained by parsing a word constructed field by field (fields are independent)",
    "no soft constraints (scores are history dependent by design)",
]

HARD_FORMS = [
    "str(<t{i}>) == 'z'",
    "len(str(<t{i}>)) == 1",
    "str(<t{i}>) == 'z' and len(str(<t{i}>)) < 2",
    "str(<t{i}>) != 'y' or False",
    "forall <k> in <t{i}>: str(<k>) == 'z'",
    "exists <k> in <t{i}>: str(<k>).startswith('z')",
    "'z' in str(<t{i}>)",
    "not (str(<t{i}>) == 'q')",
]


def shards(tier: str) -> int:
    return 16


def build_spec(h: int, r: int, forms: list[int], counts: list[int], order: list[int]) -> tuple[dict[str, Any], str]:
    """Spec with h hard constraints over fields <t_i> and r computed repetitions; returns (spec, satisfying word)."""
    parts: list[Any] = []
    rules: list[Any] = []
    word = ""
    cons: list[str] = []
    fields = [("r", j) for j in range(r)] + [("h", i) for i in range(h)]
    fields = [fields[i] for i in _perm(order, len(fields))]
    for kind, i in fields:
        if kind == "r":
            n = counts[i % len(counts)] if counts else 1
            parts.append(["nt", f"p{i}"])
            body = ["seq", [["nt", f"n{i}"], ["crep", ["nt", f"x{i}"], f"int(<n{i}>)"]]]
            if (i + len(order)) % 3 == 0 and n != 4:
                # header / body layout: the length field is the LAST child of an earlier sibling subtree, the
                # repetition sits behind a tag in a later one
                body = ["seq", [["nt", f"h{i}"], ["nt", f"b{i}"]]]
                rules.append([f"h{i}", ["seq", [["lit", "m"], ["lit", "v"], ["nt", f"n{i}"]]]])
                rules.append([f"b{i}", ["seq", [["lit", "t"], ["crep", ["nt", f"x{i}"], f"int(<n{i}>)"]]]])
                rules.append([f"p{i}", ["alt", [body, ["lit", "-"]]]])
                rules.append([f"n{i}", ["alt", [["lit", "0"], ["lit", "1"], ["lit", "2"], ["lit", "3"]]]])
                rules.append([f"x{i}", ["alt", [["lit", "a"], ["lit", "b"]]]])
                word += "mv" + str(n) + "t" + "ab"[i % 2] * n
                continue
            # n == 4 stands for "this record takes the alternative without the repetition"
            rules.append([f"p{i}", ["alt", [body, ["lit", "-"]]]])
            rules.append([f"n{i}", ["alt", [["lit", "0"], ["lit", "1"], ["lit", "2"], ["lit", "3"]]]])
            rules.append([f"x{i}", ["alt", [["lit", "a"], ["lit", "b"]]]])
            word += "-" if n == 4 else str(n) + "ab"[i % 2] * n
        else:
            form = HARD_FORMS[forms[i % len(forms)] % len(HARD_FORMS)].replace("{i}", str(i))
            if (i + len(order)) % 4 == 1 and not form.startswith("exists"):  # an existential needs a witness
                # the constrained symbol is ABSENT from the satisfying tree (the other alternative is taken):
                # nothing to check, the constraint holds
                parts.append(["nt", f"o{i}"])
                rules.append([f"o{i}", ["alt", [["nt", f"t{i}"], ["lit", "-"]]]])
                rules.append([f"t{i}", ["alt", [["lit", "z"], ["lit", "y"]]]])
                cons.append(form)
                word += "-"
                continue
            parts.append(["nt", f"t{i}"])
            rules.append([f"t{i}", ["alt", [["lit", "z"], ["lit", "y"]]]])
            cons.append(form)
            word += "z"
    spec = {"rules": [["start", ["seq", parts] if len(parts) > 1 else parts[0]]] + rules, "mode": "text",
            "alphabet": "ab", "constraints": cons}
    return spec, word


def _perm(order: list[int], n: int) -> list[int]:
    idx = list(range(n))
    out = []
    for k in range(n):
        j = order[k % len(order)] % len(idx) if order else 0
        out.append(idx.pop(j))
    return out


def check_case(case: dict[str, Any], ctx: Any = None) -> list[str]:
    from fandango.evolution.evaluation import Evaluator

    h, r = case["h"], case["r"]
    spec, word = build_spec(h, r, case["forms"], case["counts"], case["order"])
    text = S.render(spec)
    msgs: list[str] = []
    f = S.load(spec)
    trees = list(itertools.islice(f.grammar.parse_forest(word), 2))
    if len(trees) == 0:
        # the word spells a derivation with the right counts by construction: not accepting it is the defect
        return [f"h={h} r={r}: the word {word!r}, which satisfies all {h + r} constraints by construction, is not accepted "
                f"by parse_forest (0 trees)"]
    if len(trees) != 1:
        raise AssertionError(f"harness: expected one parse of {word!r}, got {len(trees)}\n{text}")
    tree = trees[0]
    f.grammar.populate_sources(tree)
    # every constraint holds by construction (each field spells 'z' or is absent; every repetition has as many items
    # as the digit in front of it says): a constraint object that rejects the tree rejects a satisfying tree
    for c in f.constraints:
        try:
            ok = c.check(tree)
        except Exception as e:
            ok = f"raises {type(e).__name__}: {str(e)[:80]}"
        if ok is not True:
            msgs.append(f"h={h} r={r}: `{c.format_as_spec()}` answers {ok} for the tree of {word!r}, which satisfies it by construction")
    if msgs:
        return msgs[:3]
    n_rep = sum(1 for c in f.constraints if type(c).__name__ == "RepetitionBoundsConstraint")
    if n_rep != r or len(f.constraints) != h + r:
        raise AssertionError(f"harness: expected {h}+{r} constraints, spec has {len(f.constraints)} ({n_rep} bounds)")
    ev = Evaluator(f.grammar, f.constraints, 1.0, 5, 1.0)
    gen = ev.evaluate_individual(tree)
    yielded = []
    try:
        while True:
            yielded.append(next(gen))
    except StopIteration as stop:
        fitness = stop.value[0]
    if not (len(yielded) == 1 and yielded[0] is tree):
        msgs.append(
            f"h={h} r={r}: a tree satisfying all {h + r} constraints was not reported as a solution "
            f"(fitness {fitness!r}, expected >= 1.0); word {word!r}"
        )
    if case.get("run"):
        k = 3 if r >= 1 else 1  # with r == 0 the language has exactly one solution
        try:
            sols = f.fuzz(desired_solutions=k, max_generations=30, population_size=10, random_seed=case["run"])
        except Exception as e:
            sols = []
            msgs.append(f"h={h} r={r}: fuzz raised {type(e).__name__}: {e}")
        if len(sols) < k:
            msgs.append(f"h={h} r={r}: fuzz(desired_solutions={k}) on an always-solvable spec returned {len(sols)} solutions")
        # run level: whatever the evaluator reports as a solution (first sighting of a satisfying tree) must reach
        # the caller - small node budgets make repair and refill work near their limits
        f2 = S.load(spec)
        seen_by_evaluator: list[str] = []
        orig = Evaluator.evaluate_individual

        def wrapped(self: Any, individual: Any) -> Any:
            gen = orig(self, individual)
            try:
                while True:
                    t = next(gen)
                    seen_by_evaluator.append(str(t))
                    yield t
            except StopIteration as stop:
                return stop.value

        Evaluator.evaluate_individual = wrapped  # type: ignore[method-assign]
        delivered: list[str] = []
        try:
            try:
                f2.fuzz(desired_solutions=10**6, max_generations=4, population_size=8, random_seed=case["run"],
                        max_nodes=4 + case["run"] % 9, solution_callback=lambda t, i: delivered.append(str(t)))
            except Exception:
                pass
        finally:
            Evaluator.evaluate_individual = orig  # type: ignore[method-assign]
        lost = [s_ for s_ in seen_by_evaluator if s_ not in delivered]
        if lost:
            msgs.append(f"h={h} r={r}: {len(lost)} tree(s) the evaluator reported as solutions never reached the caller, e.g. {lost[0]!r} "
                        f"(delivered {len(delivered)}, max_nodes={4 + case['run'] % 9})")
        if ctx is not None:
            ctx.count("run_level_solutions", len(seen_by_evaluator))
    if ctx is not None:
        ctx.case(text, h >= 1 and r >= 1 and h + r >= 3, (f"h={h}", f"r={r}"),
                 sample={"h": h, "r": r, "word": word, "constraints": spec["constraints"][:3], "fitness": fitness})
    return msgs


def run_shard(ctx: Any) -> None:
    pairs = [(h, r) for h in range(13) for r in range(13) if h + r >= 1]
    mine = [p for i, p in enumerate(pairs) if i % ctx.nshards == ctx.shard]
    reps = 2 if ctx.tier == "quick" else 12

    for h, r in mine:
        _run_pair(ctx, h, r, reps)
    ctx.notes["pairs_enumerated"] = len(mine)
    if ctx.tier == "thorough":
        _run_big(ctx)


def _run_pair(ctx: Any, h: int, r: int, reps: int) -> None:
    if True:
        @given(forms=st.lists(st.integers(0, 7), min_size=1, max_size=6),
               counts=st.lists(st.integers(0, 4), min_size=1, max_size=5),
               order=st.lists(st.integers(0, 30), min_size=1, max_size=8),
               run=st.sampled_from([0, 0, 7, 11, 23, 40]))
        def test(forms: list[int], counts: list[int], order: list[int], run: int) -> None:
            case = {"h": h, "r": r, "forms": forms, "counts": counts, "order": order,
                    "run": run if (h + r) <= 6 else 0}
            msgs = check_case(case, ctx)
            if msgs:
                ctx.fail(case, msgs)

        ctx.run_test(test, reps, salt=f"{h}:{r}")


def _run_big(ctx: Any) -> None:
    if True:
        @given(h=st.integers(0, 40), r=st.integers(0, 40),
               forms=st.lists(st.integers(0, 7), min_size=1, max_size=6),
               counts=st.lists(st.integers(0, 4), min_size=1, max_size=5),
               order=st.lists(st.integers(0, 30), min_size=1, max_size=8))
        def test_big(h: int, r: int, forms: list[int], counts: list[int], order: list[int]) -> None:
            if h + r == 0:
                return
            case = {"h": h, "r": r, "forms": forms, "counts": counts, "order": order, "run": 0}
            msgs = check_case(case, ctx)
            if msgs:
                ctx.fail(case, msgs)

        ctx.run_test(test_big, 60, salt="big")


def evidence_extra(cov: dict[str, Any]) -> dict[str, Any]:
    return {"exhaustive": cov.get("pairs_enumerated") == 168,
            "exhaustive_note": "the (h, r) table for h, r <= 12 is enumerated completely; mixes/orders per pair are sampled"}


def replay(case: dict[str, Any]) -> list[str]:
    return check_case(case, None)
