"""C10 - tree bookkeeping stays consistent under any edits; edits never alias.

Part A : hypothesis RuleBasedStateMachine over a pool of live trees.  Rules are the public
         tree operations: construct, add_child, set_children (subset / permutation of the
         own children plus fresh nodes), symbol / sender / recipient setters, deepcopy
         variants, prefix, split_end, indexing and slicing, every selector class of
         language/search.py, value conversions, size/hash queries.
Part B : grammar-level operations on trees of specs with constraints and generators:
         replace / replace_multiple, SimpleSubtreeCrossover.crossover, SimpleMutation.mutate,
         PopulationManager.fix_individual with the suggestions the evaluation produced, and
         end to end: snapshots of solutions taken in solution_callback vs. the same objects
         after fuzz() returned.
Model / invariants after every step for every live root: size() = recomputed node count;
         hash() = hash of a tree freshly rebuilt from the snapshot; a == b <=> structural
         snapshots agree; every child's parent IS the node listing it; operations specified
         to return new trees leave the identity snapshots (structure, parent links,
         read-only flags) of their inputs unchanged; read-only accessors change nothing.
"""

from __future__ import annotations

import copy
import random
from typing import Any

from hypothesis import given, strategies as st
from hypothesis.stateful import RuleBasedStateMachine, initialize, rule

from vf import spec as S

PROP = "C10"
LEVEL = "exploration"
RULE = (
    "case = history of public tree operations on a pool of live trees (part A) or a grammar-level operator "
    "application / search run (part B); non-trivial = a history with an edit below a node whose hash was already "
    "taken, or an accessor followed by a structural query, or an operator application that changed something; "
    "distinct by hash of the operation sequence"
)
ASSUMPTIONS = [
    "only detached nodes (fresh or deep copies) are attached to trees: attaching a node that still hangs in another tree is caller misuse, not generated",
    "hash collisions between structurally different trees are 64-bit events and ignored",
]

SYMS = ["<a>", "<b>", "<c>"]
TERMS = ["x", "y", "", "é", b"\x00z", 0, 1, "<a>", "<b>"]  # incl. terminals spelled like nonterminal names


def shards(tier: str) -> int:
    return 16


# ---------------------------------------------------------------------------
# snapshots

def sym_key(s: Any) -> Any:
    v = s._value
    return (type(s).__name__, repr(v._value), tuple(v._trailing_bits))


def struct(t: Any) -> Any:
    return (sym_key(t.symbol), t.sender, t.recipient, tuple(struct(c) for c in t.children))


def ident(t: Any) -> Any:
    """Identity snapshot: structure + object identities + parent links + read-only flags."""
    return (id(t), sym_key(t.symbol), t.sender, t.recipient, bool(t.read_only),
            id(t.parent) if t.parent is not None else None,
            tuple(ident(c) for c in t.children), tuple(id(s) for s in t.sources))


def rebuild(st_: Any) -> Any:
    from fandango.language.symbols import NonTerminal, Slice, Terminal
    from fandango.language.tree import DerivationTree
    from fandango.language.tree_value import TreeValue

    (cls, val, bits), sender, recipient, kids = st_
    if cls == "NonTerminal":
        sym: Any = NonTerminal(eval(val))
    elif cls == "Slice":
        sym = Slice()
    else:
        v = eval(val)
        sym = Terminal(TreeValue(v, trailing_bits=list(bits), allow_empty=True)) if (bits and v is not None) else (
            Terminal(bits[0]) if bits else Terminal(v))
    return DerivationTree(sym, [rebuild(k) for k in kids], sender=sender, recipient=recipient)


def count(t: Any) -> int:
    return 1 + sum(count(c) for c in t.children)


def invariants(roots: list[Any], where: str) -> list[str]:
    msgs: list[str] = []
    for r in roots:
        stack = [r]
        while stack:
            n = stack.pop()
            for c in n.children:
                if c.parent is not n:
                    msgs.append(f"{where}: child {sym_key(c.symbol)[1]} of {sym_key(n.symbol)[1]} has parent "
                                f"{'None' if c.parent is None else sym_key(c.parent.symbol)[1] + '@' + hex(id(c.parent))[-4:]}, not the node that lists it")
                stack.append(c)
            try:
                sz = n.size()
            except Exception as e:
                msgs.append(f"{where}: size() raised {type(e).__name__}")
                continue
            if sz != count(n):
                msgs.append(f"{where}: size() of {sym_key(n.symbol)[1]} is {sz}, recomputed {count(n)}")
        s = struct(r)
        try:
            fresh = rebuild(s)
            if hash(r) != hash(fresh):
                msgs.append(f"{where}: hash() of tree {s!r:.200} differs from the hash of a freshly built equal tree (stale cache)")
        except Exception:
            pass
    for i, a in enumerate(roots[:6]):
        for b in roots[i:6]:
            try:
                eq = a == b
            except Exception:
                continue
            if eq != (struct(a) == struct(b)):
                msgs.append(f"{where}: a == b is {eq} but structural snapshots {'agree' if struct(a) == struct(b) else 'differ'}: {struct(a)!r:.150} vs {struct(b)!r:.150}")
    return msgs[:6]


# ---------------------------------------------------------------------------
# part A: low-level operation interpreter (shared by the machine and by replay)

class Pool:
    def __init__(self) -> None:
        self.roots: list[Any] = []
        self.hashed = False
        self.nontrivial = False

    def node(self, r: int, n: int) -> Any:
        root = self.roots[r % len(self.roots)]
        flat = root.flatten()
        return root, flat[n % len(flat)]

    def apply(self, op: list[Any]) -> list[str]:
        from fandango.language.symbols import NonTerminal, Terminal
        from fandango.language.tree import DerivationTree
        from fandango.language import search as Q

        kind = op[0]
        where = repr(op)
        msgs: list[str] = []
        if kind == "new":
            v = op[1]
            if isinstance(v, str) and v.startswith("<"):
                self.roots.append(DerivationTree(NonTerminal(v)))
            else:
                if isinstance(v, list):
                    v = bytes(v)
                self.roots.append(DerivationTree(Terminal(v)))
            return invariants(self.roots, where)
        if kind == "new_lookalike":
            # a TERMINAL spelled like a nonterminal name
            self.roots.append(DerivationTree(Terminal(op[1])))
            return invariants(self.roots, where)
        if not self.roots:
            return []
        if kind == "twin":
            # a copy of a tree in which childless nonterminals and terminals of the same spelling change places
            root = self.roots[op[1] % len(self.roots)]
            if count(root) > 60:
                return []

            def twin(t: Any) -> Any:
                if not t.children and t.symbol.is_non_terminal:
                    return DerivationTree(Terminal(t.symbol.name()), sender=t.sender, recipient=t.recipient)
                if not t.children and t.symbol.is_terminal and isinstance(t.symbol._value._value, str) \
                        and t.symbol._value._value.startswith("<") and not t.symbol._value._trailing_bits:
                    return DerivationTree(NonTerminal(t.symbol._value._value), sender=t.sender, recipient=t.recipient)
                return DerivationTree(t.symbol, [twin(c) for c in t.children], sender=t.sender, recipient=t.recipient)

            self.roots.insert(0, twin(root))
            self.roots.insert(0, self.roots.pop(self.roots.index(root)))  # both among the compared roots
            self.nontrivial = True
            return invariants(self.roots, where)
        if kind == "add_child":
            root, n = self.node(op[1], op[2])
            if n.symbol.is_terminal:
                return []
            i = op[3] % len(self.roots)
            c = self.roots[i]
            if count(root) + count(c) > 150:
                return []  # keep trees small (adding copies of a tree to itself doubles it)
            if c is root or c.parent is not None:
                c = copy.deepcopy(c)
            else:
                self.roots.pop(i)
            if self.hashed:
                self.nontrivial = True
            n.add_child(c)
        elif kind == "set_children":
            root, n = self.node(op[1], op[2])
            if n.symbol.is_terminal:
                return []
            kids = list(n.children)
            new = [kids[i % len(kids)] for i in op[3]] if kids else []
            seen: set[int] = set()
            uniq = []
            for k in new:
                if id(k) not in seen:
                    seen.add(id(k))
                    uniq.append(k)
            if op[4]:
                uniq.append(DerivationTree(Terminal("n")))
            if self.hashed:
                self.nontrivial = True
            n.set_children(uniq)
        elif kind == "set_symbol":
            root, n = self.node(op[1], op[2])
            if n.symbol.is_terminal:
                n.symbol = Terminal(op[3] if isinstance(op[3], str) and not op[3].startswith("<") else "q")
            else:
                n.symbol = NonTerminal(op[3] if isinstance(op[3], str) and op[3].startswith("<") else "<q>")
            if self.hashed:
                self.nontrivial = True
        elif kind == "set_party":
            root, n = self.node(op[1], op[2])
            if op[3]:
                n.sender = op[4]
            else:
                n.recipient = op[4]
            if self.hashed:
                self.nontrivial = True
        elif kind == "hash":
            for r in self.roots:
                hash(r)
                for n in r.flatten():
                    hash(n)
            self.hashed = True
        elif kind == "deepcopy":
            root, n = self.node(op[1], op[2])
            before = [ident(r) for r in self.roots]
            variant = op[3] % 4
            if variant == 0:
                c = copy.deepcopy(n)
            elif variant == 1:
                c = n.deepcopy(copy_children=True, copy_params=False, copy_parent=False)
            elif variant == 2:
                c = n.deepcopy(copy_children=False, copy_params=False, copy_parent=False)
            else:
                c = n.deepcopy(copy_children=True, copy_params=True, copy_parent=True)
            if [ident(r) for r in self.roots] != before:
                msgs.append(f"{where}: deepcopy changed its input")
            want = struct(n) if variant != 2 else (sym_key(n.symbol), n.sender, n.recipient, ())
            if struct(c) != want:
                msgs.append(f"{where}: deepcopy result differs structurally from its source")
            ids = {id(x) for r in self.roots for x in r.flatten()}
            if any(id(x) in ids for x in c.flatten()):
                msgs.append(f"{where}: deepcopy result shares nodes with its source")
            self.roots.append(c.get_root() if variant == 3 else c)
        elif kind in ("prefix", "split_end"):
            root, n = self.node(op[1], op[2])
            if kind == "prefix" and n.parent is None:
                return []
            before = [ident(r) for r in self.roots]
            res = n.prefix() if kind == "prefix" else n.split_end()
            if [ident(r) for r in self.roots] != before:
                msgs.append(f"{where}: {kind}() (copying variant) changed its input")
            self.roots.append(res.get_root())
        elif kind in ("index", "slice", "search", "value", "query"):
            root, n = self.node(op[1], op[2])
            before = [ident(r) for r in self.roots]
            try:
                if kind == "index":
                    if n.children:
                        n[op[3] % len(n.children)]
                elif kind == "slice":
                    sl = n[op[3]:op[4]]
                    got = [id(c) for c in sl.children]
                    want_ids = [id(c) for c in n.children[op[3]:op[4]]]
                    if got != want_ids:
                        msgs.append(f"{where}: slice does not hold the selected children")
                elif kind == "search":
                    sym = NonTerminal(op[4])
                    base: Any = Q.RuleSearch(NonTerminal(sym_key(n.symbol)[1].strip("'"))) if not n.symbol.is_terminal else Q.RuleSearch(sym)
                    searches = [
                        Q.RuleSearch(sym), Q.AttributeSearch(base, Q.RuleSearch(sym)),
                        Q.DescendantAttributeSearch(base, Q.RuleSearch(sym)), Q.ItemSearch(base, [0]),
                        Q.ItemSearch(base, [slice(0, 2)]), Q.LengthSearch(Q.RuleSearch(sym)),
                        Q.StarSearch(Q.RuleSearch(sym)), Q.SelectiveSearch(base, [(sym, True)], [None]),
                        Q.SelectiveSearch(base, [(sym, False)], [slice(0, 1)]),
                    ]
                    s_ = searches[op[3] % len(searches)]
                    for cont in s_.find(root):
                        cont.evaluate()
                        cont.get_trees()
                elif kind == "value":
                    for f in (str, bytes, lambda t: t.to_bits(), lambda t: t.value(), lambda t: t.to_string()):
                        try:
                            f(n)
                        except Exception:
                            pass
                else:
                    n.size(); n.get_path(); n.get_root(); n.flatten(); n.get_choices_path(); n.count_terminals()
                    n.to_tree(); repr(n); n.find_all_trees(NonTerminal("<a>")); n.get_non_terminal_symbols()
            except IndexError:
                pass
            if [ident(r) for r in self.roots] != before:
                msgs.append(f"{where}: a read-only accessor changed the tree (structure, parent link or flags)")
            if kind in ("index", "slice", "search", "value"):
                self.nontrivial = True
        msgs.extend(invariants(self.roots, where))
        return msgs


def make_machine(ctx: Any) -> Any:
    class TreeOps(RuleBasedStateMachine):
        def __init__(self) -> None:
            super().__init__()
            self.pool = Pool()
            self.ops: list[Any] = []

        def _do(self, op: list[Any]) -> None:
            self.ops.append(op)
            msgs = self.pool.apply(op)
            if msgs:
                ctx.fail({"part": "A", "ops": self.ops}, msgs)

        @initialize(v=st.sampled_from(SYMS))
        def start(self, v: str) -> None:
            self._do(["new", v])

        @rule(v=st.sampled_from(SYMS + ["x", "y", "", "é", [0, 122], 0, 1]))
        def new(self, v: Any) -> None:
            self._do(["new", v])

        @rule(v=st.sampled_from(SYMS))
        def new_lookalike(self, v: str) -> None:
            self._do(["new_lookalike", v])

        @rule(r=st.integers(0, 20))
        def twin(self, r: int) -> None:
            self._do(["twin", r])

        @rule(r=st.integers(0, 20), n=st.integers(0, 40), c=st.integers(0, 20))
        def add_child(self, r: int, n: int, c: int) -> None:
            self._do(["add_child", r, n, c])

        @rule(r=st.integers(0, 20), n=st.integers(0, 40), idx=st.lists(st.integers(0, 5), max_size=4), fresh=st.booleans())
        def set_children(self, r: int, n: int, idx: list[int], fresh: bool) -> None:
            self._do(["set_children", r, n, idx, fresh])

        @rule(r=st.integers(0, 20), n=st.integers(0, 40), v=st.sampled_from(SYMS + ["x", "w"]))
        def set_symbol(self, r: int, n: int, v: str) -> None:
            self._do(["set_symbol", r, n, v])

        @rule(r=st.integers(0, 20), n=st.integers(0, 40), which=st.booleans(), p=st.sampled_from([None, "A", "B"]))
        def set_party(self, r: int, n: int, which: bool, p: Any) -> None:
            self._do(["set_party", r, n, which, p])

        @rule()
        def take_hashes(self) -> None:
            self._do(["hash"])

        @rule(r=st.integers(0, 20), n=st.integers(0, 40), v=st.integers(0, 3))
        def deepcopy(self, r: int, n: int, v: int) -> None:
            self._do(["deepcopy", r, n, v])

        @rule(r=st.integers(0, 20), n=st.integers(0, 40), k=st.sampled_from(["prefix", "split_end"]))
        def prefix_split(self, r: int, n: int, k: str) -> None:
            self._do([k, r, n])

        @rule(r=st.integers(0, 20), n=st.integers(0, 40), i=st.integers(0, 5))
        def index(self, r: int, n: int, i: int) -> None:
            self._do(["index", r, n, i])

        @rule(r=st.integers(0, 20), n=st.integers(0, 40), a=st.integers(0, 2), b=st.integers(1, 4))
        def slice_(self, r: int, n: int, a: int, b: int) -> None:
            self._do(["slice", r, n, a, b])

        @rule(r=st.integers(0, 20), n=st.integers(0, 40), k=st.integers(0, 8), sym=st.sampled_from(SYMS))
        def search(self, r: int, n: int, k: int, sym: str) -> None:
            self._do(["search", r, n, k, sym])

        @rule(r=st.integers(0, 20), n=st.integers(0, 40), k=st.sampled_from(["value", "query"]))
        def access(self, r: int, n: int, k: str) -> None:
            self._do([k, r, n])

        def teardown(self) -> None:
            if self.ops:
                from vf.common import jhash

                ctx.case(jhash(self.ops), self.pool.nontrivial, ("partA",),
                         sample={"part": "A", "ops": self.ops[:14]})

    return TreeOps


# ---------------------------------------------------------------------------
# part B: grammar-level operators

SPECS_B = [
    {"rules": [["start", ["seq", [["nt", "x"], ["lit", "="], ["nt", "y"], ["star", ["seq", [["lit", ","], ["nt", "y"]]]]]]],
               ["x", ["rep", ["alt", [["lit", c] for c in "0123456789"]], 1, 3]],
               ["y", ["rep", ["alt", [["lit", c] for c in "0123456789"]], 1, 2]]],
     "mode": "text", "constraints": ["str(<x>) == '42'", "int(<y>) % 2 == 0"]},
    {"rules": [["start", ["seq", [["nt", "len"], ["lit", ":"], ["crep", ["nt", "item"], "int(<len>)"]]]],
               ["len", ["alt", [["lit", c] for c in "0123"]]],
               ["item", ["alt", [["lit", "a"], ["seq", [["lit", "b"], ["opt", ["nt", "item"]]]]]]]],
     "mode": "text", "constraints": ["str(<item>) != 'a'"]},
    # computed repetitions with siblings BEHIND the repetition, and with the repeated symbol also outside it
    {"rules": [["start", ["seq", [["nt", "len"], ["lit", ":"], ["crep", ["nt", "item"], "int(<len>)"], ["lit", ";"], ["nt", "w"]]]],
               ["len", ["alt", [["lit", c] for c in "1234"]]], ["item", ["alt", [["lit", "a"], ["lit", "b"]]]],
               ["w", ["plus", ["alt", [["lit", "p"], ["lit", "q"]]]]]],
     "mode": "text", "constraints": ["len(str(<w>)) >= 2"]},
    {"rules": [["start", ["seq", [["nt", "len"], ["nt", "item"], ["lit", ";"], ["crep", ["nt", "item"], "int(<len>)"], ["nt", "trailer"]]]],
               ["len", ["alt", [["lit", c] for c in "2345"]]], ["item", ["alt", [["lit", c] for c in "abcd"]]],
               ["trailer", ["seq", [["lit", "!"], ["nt", "item"]]]]],
     "mode": "text", "constraints": ["str(<start>).count('a') >= 2"]},
    {"rules": [["start", ["seq", [["nt", "n"], ["lit", "#"], ["nt", "w"], ["opt", ["nt", "n"]]]]],
               ["n", ["plus", ["alt", [["lit", c] for c in "0123456789"]]]],
               ["w", ["plus", ["alt", [["lit", "p"], ["lit", "q"]]]]]],
     "mode": "text", "constraints": ["int(<n>) % 2 == 0", "len(str(<w>)) >= 2"],
     "code": "import random", "generators": {"n": "str(random.randint(0, 60))"}},
]


@st.composite
def b_cases(draw: Any) -> dict[str, Any]:
    return {"part": "B", "spec": draw(st.integers(0, len(SPECS_B) - 1)), "seed": draw(st.integers(0, 10**6)),
            "ops": draw(st.lists(st.sampled_from(["crossover", "mutate", "fix", "replace", "replace_multiple", "run"]),
                                 min_size=2, max_size=6)),
            "max_nodes": draw(st.sampled_from([10, 25, 50]))}


def check_b(case: dict[str, Any], ctx: Any = None) -> list[str]:
    from fandango.evolution.crossover import SimpleSubtreeCrossover
    from fandango.evolution.evaluation import Evaluator
    from fandango.evolution.mutation import SimpleMutation
    from fandango.evolution.population import PopulationManager

    spec = SPECS_B[case["spec"]]
    f = S.load(spec)
    g = f.grammar
    random.seed(case["seed"])
    pool = [g.fuzz("<start>", max_nodes=case["max_nodes"]) for _ in range(4)]
    ev = Evaluator(g, f.constraints, 1.0, 5, 1.0)
    pm = PopulationManager(g, "<start>")
    msgs: list[str] = []
    changed = False

    def drain(gen: Any) -> Any:
        try:
            while True:
                next(gen)
        except StopIteration as s_:
            return s_.value

    for op in case["ops"]:
        before = [ident(t) for t in pool]
        structs = [struct(t) for t in pool]
        new: list[Any] = []
        where = op
        try:
            if op == "crossover":
                res = SimpleSubtreeCrossover().crossover(g, pool[0], pool[1])
                new = list(res) if res else []
            elif op == "mutate":
                new = [drain(SimpleMutation().mutate(pool[0], g, ev.evaluate_individual, max_nodes=case["max_nodes"]))]
            elif op == "fix":
                _fit, _failing, sugg = drain(ev.evaluate_individual(pool[0]))
                t, n = pm.fix_individual(pool[0], sugg)
                new = [t]
                where = f"fix_individual ({n} replacements)"
            elif op in ("replace", "replace_multiple"):
                nts = [n for n in pool[0].flatten() if n.symbol.is_non_terminal and n.parent is not None and not n.read_only]
                if not nts:
                    continue
                targets = [random.choice(nts)] if op == "replace" else random.sample(nts, min(2, len(nts)))
                reps = [(t, g.fuzz(t.symbol, max_nodes=8)) for t in targets]
                rep_before = [ident(r) for _, r in reps]
                new = [pool[0].replace_multiple(g, reps)]
                if [ident(r) for _, r in reps] != rep_before:
                    msgs.append(f"{op}: the replacement subtree handed in was modified")
            else:  # run: solutions captured in the callback vs. after fuzz() returned
                snaps: list[Any] = []
                held: list[Any] = []

                def cb(t: Any, i: int) -> None:
                    held.append(t)
                    snaps.append((ident(t), hash(t), str(t)))

                try:
                    f2 = S.load(spec)
                    f2.fuzz(desired_solutions=4, max_generations=6, population_size=6, random_seed=case["seed"],
                            max_nodes=case["max_nodes"], solution_callback=cb)
                except Exception:
                    pass
                for t, (idn, h, s_) in zip(held, snaps):
                    if ident(t) != idn or hash(t) != h or str(t) != s_:
                        msgs.append(f"run: a solution handed to solution_callback ({s_!r}) was changed afterwards by the search (now {str(t)!r})")
                msgs.extend(invariants(held, "run: emitted solutions"))
                if held:
                    changed = True
                continue
        except Exception as e:
            if ctx is not None:
                ctx.count(f"op_raised:{op}:{type(e).__name__}")
            continue
        if [ident(t) for t in pool] != before:
            bad = [i for i, t in enumerate(pool) if ident(t) != before[i]]
            msgs.append(f"{where}: input tree(s) {bad} changed (structure, parent links or read-only flags); before {structs[bad[0]]!r:.200}")
        in_ids = {id(x) for t in pool for x in t.flatten()}
        for t in new:
            if t is None:
                continue
            if t not in pool and any(id(x) in in_ids for x in t.flatten()):
                msgs.append(f"{where}: the returned tree shares nodes with an input tree")
        outs = [t for t in new if t is not None]
        msgs.extend(invariants(outs, where))
        for t in outs:
            if all(struct(t) != s_ for s_ in structs):
                changed = True
        # rotate the pool so that later operators work on operator outputs too
        pool = (outs + pool)[:4] if outs else pool[1:] + pool[:1]
        if msgs:
            break
    if ctx is not None:
        from vf.common import jhash

        ctx.case(jhash(case), changed, ("partB", f"spec={case['spec']}"), sample=case)
    return msgs


def run_shard(ctx: Any) -> None:
    n_a = 100 if ctx.tier == "quick" else 1500
    n_b = 70 if ctx.tier == "quick" else 1000
    ctx.run_machine(make_machine(ctx), n_a, 35 if ctx.tier == "quick" else 60, salt="A")

    @given(b_cases())
    def test_b(case: dict[str, Any]) -> None:
        msgs = check_b(case, ctx)
        if msgs:
            ctx.fail(case, msgs)

    ctx.run_test(test_b, n_b, salt="B")


def replay(case: dict[str, Any]) -> list[str]:
    if case.get("part") == "B":
        return check_b(case, None)
    p = Pool()
    for op in case["ops"]:
        msgs = p.apply(op)
        if msgs:
            return msgs
    return []
