"""C15 - printing a spec and reading it back preserves its meaning.

Domain : (1) generated grammars stressing postfix operators over groups and over other
         postfix operators, {n} {n,m} {n,} {,m}, literals with both quote kinds, backslashes,
         non-ASCII and non-printable characters, bytes, regexes; (2) the template grammars
         of C07 with generated constraint programs; (3) grammars with party annotations and
         generators with and without arguments.
Procedure / oracle : text S -> F1 -> printed P (repr(grammar) + "where " + format_as_spec(),
         as `fandango convert` and FandangoSpec.__repr__ print it) -> F2.
         (a) P must be readable.  (b) both grammar IRs are converted to the checks' own IR
         and compared after language-preserving normalisation (nested sequences/alternatives
         flattened, singleton groups dropped): operators, bounds (open vs closed), terminal
         values and kinds, senders/recipients, generator expressions.  (c) if they differ the
         verdict comes from a witness word accepted by exactly one of F1.parse / F2.parse
         (same parser on both sides), or from an open bound that was closed.  (d) constraints:
         for trees from F1, c1.check(t) == c2.check(re-parse of str(t) under F2).
         (e) printing F2 gives the same text as printing F1.
"""

from __future__ import annotations

import itertools
import random
from typing import Any

from hypothesis import given, strategies as st

from vf import refconstraint as R, spec as S, specgen
from vf.checks import c07
from vf.harness import Fuel, FuelExhausted

PROP = "C15"
LEVEL = "exploration"
RULE = (
    "case = generated spec (grammar, optionally constraints / generators / parties); non-trivial = spec with a "
    "postfix operator applied to a group or to another postfix operator, an open-ended bound, or a literal that "
    "needs escaping; distinct by hash of the spec text"
)
ASSUMPTIONS = [
    "IR extraction reads Fandango's grammar node objects (alternatives, nodes, min/internal_max, symbols) of BOTH sides the same way",
    "a difference of the normal forms is only reported with a witness word (or an open bound that was closed)",
]

ODD_LITERALS = ["it's", 'say "hi"', "back\\slash", "new\nline", "tab\t", "é€", "\x00\x7f", "a'b\"c", "\\n", "{}", "<x>", " "]


def shards(tier: str) -> int:
    return 16


# ---------------------------------------------------------------------------
# Fandango grammar -> checks' IR

def to_ir(node: Any) -> Any:
    name = type(node).__name__
    if name == "Alternative":
        return ["alt", [to_ir(a) for a in node.alternatives]]
    if name == "Concatenation":
        return ["seq", [to_ir(a) for a in node.nodes]]
    if name == "Star":
        return ["star", to_ir(node.node)]
    if name == "Plus":
        return ["plus", to_ir(node.node)]
    if name == "Option":
        return ["opt", to_ir(node.node)]
    if name == "Repetition":
        if node.bounds_constraint is not None:
            return ["crep", to_ir(node.node), "computed"]
        return ["rep", to_ir(node.node), node.min, node.internal_max]
    if name == "NonTerminalNode":
        base = node.symbol.name()[1:-1]
        if node.sender is not None:
            return ["nt", base, node.sender, node.recipient]
        return ["nt", base]
    if name == "TerminalNode":
        sym = node.symbol
        v = sym._value
        if v._value is None:
            return ["bit", v._trailing_bits[0]]
        if sym.is_regex:
            return ["rx" if isinstance(v._value, str) else "brx", v._value if isinstance(v._value, str) else v._value.decode("latin-1")]
        if isinstance(v._value, str):
            return ["lit", v._value]
        return ["blit", v._value.hex()]
    raise ValueError(name)


def normalise(n: Any) -> Any:
    k = n[0]
    if k in ("seq", "alt"):
        parts: list[Any] = []
        for c in n[1]:
            c = normalise(c)
            if c[0] == k:
                parts.extend(c[1])
            else:
                parts.append(c)
        if len(parts) == 1:
            return parts[0]
        return [k, parts]
    if k in ("star", "plus", "opt"):
        return [k, normalise(n[1])]
    if k == "rep":
        return ["rep", normalise(n[1]), n[2], n[3]]
    if k == "crep":
        return ["crep", normalise(n[1]), n[2]]
    return list(n)


def grammar_ir(f: Any) -> dict[str, Any]:
    return {k.name(): normalise(to_ir(v)) for k, v in f.grammar.rules.items()}


def printed(f: Any) -> str:
    text = repr(f.grammar) + "\n"
    for c in f.constraints:
        if type(c).__name__ == "RepetitionBoundsConstraint":
            continue
        text += "where " + c.format_as_spec() + "\n"
    return text


def plain_ir(ir: dict[str, Any]) -> dict[str, Any]:
    """IR usable by vf.spec.Sem (drop party annotations)."""
    def strip(n: Any) -> Any:
        if n[0] == "nt":
            return ["nt", n[1]]
        if n[0] in ("seq", "alt"):
            return [n[0], [strip(c) for c in n[1]]]
        if n[0] in ("star", "plus", "opt"):
            return [n[0], strip(n[1])]
        if n[0] == "rep":
            return ["rep", strip(n[1]), n[2], n[3]]
        if n[0] == "crep":
            return ["star", strip(n[1])]
        return n
    return {"rules": [[k[1:-1], strip(v)] for k, v in ir.items()], "mode": "text"}


def open_bound_closed(a: Any, b: Any) -> bool:
    """Some repetition is open-ended on one side and bounded on the other."""
    if a[0] != b[0]:
        return False
    if a[0] == "rep":
        if (a[3] is None) != (b[3] is None):
            return True
        return open_bound_closed(a[1], b[1])
    if a[0] in ("seq", "alt"):
        return len(a[1]) == len(b[1]) and any(open_bound_closed(x, y) for x, y in zip(a[1], b[1]))
    if a[0] in ("star", "plus", "opt"):
        return open_bound_closed(a[1], b[1])
    return False


# ---------------------------------------------------------------------------

def _rx_patterns(spec: dict[str, Any]) -> list[str]:
    out: list[str] = []

    def walk(n: Any) -> None:
        if n[0] == "rx":
            out.append(n[1])
        elif n[0] in ("seq", "alt"):
            for c in n[1]:
                walk(c)
        elif n[0] in ("star", "plus", "opt", "rep"):
            walk(n[1])

    for _, rhs in spec["rules"]:
        walk(rhs)
    return sorted(set(out))


@st.composite
def grammar_cases(draw: Any) -> dict[str, Any]:
    mode = draw(st.sampled_from(["text", "text", "bin"]))
    spec = draw(specgen.grammars({"mode": mode, "non_ascii": draw(st.booleans()), "depth": 2,
                                  "regex": draw(st.sampled_from(["guarded", "none", "empty"])) if mode == "text" else "guarded"}))
    if mode == "text" and draw(st.booleans()):
        # put an awkward literal somewhere; if the spec has regexes, often a LITERAL with the text of one of them
        name, rhs = spec["rules"][-1]
        pats = _rx_patterns(spec)
        lit = draw(st.sampled_from(pats)) if pats and draw(st.booleans()) else draw(st.sampled_from(ODD_LITERALS))
        where = draw(st.integers(0, 2))
        spec["rules"][-1] = [name, ["seq", [rhs, ["lit", lit]]] if where == 0 else (["seq", [["lit", lit], rhs]] if where == 1 else ["alt", [["lit", lit], rhs]])]
    feature = draw(st.sampled_from(["plain", "plain", "generator", "generator_args", "parties"]))
    if mode == "text" and feature in ("generator", "generator_args") and len(spec["rules"]) >= 2:
        last = spec["rules"][-1][0]
        if feature == "generator":
            spec["generators"] = {last: "'a' * 2"}
        else:
            first_dep = spec["rules"][0][0]
            if first_dep != last:
                spec["generators"] = {last: f"str(<{first_dep}>)[:1] + 'a'", first_dep: f"str(<{last}>) + 'b'"}
    if feature == "parties":
        spec = {"rules": [["start", ["seq", [["nt", "m1", "A", "B"], ["opt", ["nt", "m2", "B", "A"]], ["star", ["nt", "m1", "A", None]]]]],
                          ["m1", ["lit", "ping"]], ["m2", ["alt", [["lit", "pong"], ["lit", "no"]]]]],
                "mode": "text", "alphabet": "ab", "parties": True}
    return {"kind": "grammar", "spec": spec}


@st.composite
def constraint_cases(draw: Any) -> dict[str, Any]:
    gname = draw(st.sampled_from(sorted(c07.GRAMMARS)))
    g = c07.GRAMMARS[gname]
    fms = [draw(c07.formulas(g, [], 2, True)) for _ in range(draw(st.integers(1, 3)))]
    if draw(st.integers(0, 2)) == 0:
        # a slice selector with every combination of omitted / zero / positive bounds on a symbol with several children
        sym = draw(st.sampled_from([s_ for s_ in g["syms"] if s_ in g["parents"] and s_ != "start"]))
        a = draw(st.sampled_from([None, 0, 1, 2]))
        b = draw(st.sampled_from([None, 0, 1, 2, 3]))
        tmpl = draw(st.sampled_from(["str($0) != '+'", "len(str($0)) >= 2", "str($0) != '7'", "'1' in str($0)", "str($0) != ','"]))
        fms.append(["expr", tmpl, [["slice", ["nt", sym], a, b]]])
    return {"kind": "constraints", "grammar": gname, "formulas": fms, "tree_seeds": draw(st.lists(st.integers(0, 10**6), min_size=6, max_size=6))}


PARTY_CODE = "".join(
    f"\nclass {pname}(FandangoParty):\n    def __init__(self):\n        super().__init__(connection_mode=ConnectionMode.{mode})\n"
    f"    def send(self, message, recipient):\n        pass\n" for pname, mode in (("A", "OPEN"), ("B", "EXTERNAL")))


def render_spec(spec: dict[str, Any]) -> str:
    if spec.get("parties"):
        lines = []
        for name, rhs in spec["rules"]:
            lines.append(f"<{name}> ::= " + _render_party(rhs))
        return "\n".join(lines) + "\n" + PARTY_CODE
    return S.render(spec)


def _render_party(n: Any, top: bool = True) -> str:
    k = n[0]
    if k == "nt" and len(n) > 2:
        return f"<{n[2]}:{n[3]}:{n[1]}>" if n[3] else f"<{n[2]}:{n[1]}>"
    if k == "seq":
        s_ = " ".join(_render_party(c, False) for c in n[1])
        return s_ if top else f"({s_})"
    if k == "alt":
        s_ = " | ".join(_render_party(c, False) for c in n[1])
        return s_ if top else f"({s_})"
    if k in ("opt", "star", "plus"):
        return _render_party(n[1], False) + {"opt": "?", "star": "*", "plus": "+"}[k]
    if k == "rep":
        return _render_party(n[1], False) + f"{{{n[2]},{n[3]}}}"
    return S.render_node(n)


def check_case(case: dict[str, Any], ctx: Any = None) -> list[str]:
    from fandango import Fandango

    msgs: list[str] = []
    if case["kind"] == "sliced":
        return check_sliced(case, ctx)
    if case["kind"] == "grammar":
        text1 = render_spec(case["spec"])
    else:
        g = c07.GRAMMARS[case["grammar"]]
        text1 = S.render({"rules": g["rules"], "mode": "text", "constraints": [R.text(fm) for fm in case["formulas"]]})
    try:
        f1 = Fandango(text1, use_stdlib=False, use_cache=False)
    except Exception as e:
        if ctx is not None:
            ctx.count(f"original_rejected:{type(e).__name__}")
            ctx.count("original_rejected_why:" + ("no such child (static path check)" if "has no child" in str(e) else str(e)[:50]))
        return []
    p1 = printed(f1)
    if case["kind"] == "grammar" and case["spec"].get("parties"):
        # FandangoSpec.__repr__ prints the spec's python code in front of the grammar; the party classes are what
        # makes the printed annotations readable again
        p1 = PARTY_CODE + "\n" + p1
    try:
        f2 = Fandango(p1, use_stdlib=False, use_cache=False)
    except Exception as e:
        if "has no child" in str(e):
            # the reader's static path check is applied to some syntactic positions only; the
            # constraint is vacuous either way - not a change of meaning
            if ctx is not None:
                ctx.count("set_aside_static_path_check")
            return []
        return [f"printed spec cannot be read back ({type(e).__name__}: {str(e)[:150]}):\n{p1}"]
    ir1, ir2 = grammar_ir(f1), grammar_ir(f2)
    if ir1 != ir2:
        diff = [k for k in ir1 if ir1.get(k) != ir2.get(k)] + [k for k in ir2 if k not in ir1]
        k0 = diff[0]
        a, b = ir1.get(k0), ir2.get(k0)
        if a is not None and b is not None and open_bound_closed(a, b):
            msgs.append(f"rule {k0}: an open-ended repetition bound was printed as a closed one: {S.render_node(a, top=True) if a else a} -> {S.render_node(b, top=True) if b else b}")
        elif a is not None and b is not None and _annotations(a) != _annotations(b):
            msgs.append(f"rule {k0}: party annotations changed by print/read: {a!r} -> {b!r}")
        else:
            w = witness(f1, f2, ir1, ir2, case)
            if w is not None:
                msgs.append(f"rule {k0} changes meaning when printed and read back; witness {w[0]!r} is accepted only by the "
                            f"{'original' if w[1] else 'printed'} spec.\n original: {text1.strip()[:300]}\n printed : {p1.strip()[:300]}")
            elif ctx is not None:
                ctx.count("ir_differs_no_witness")
    g1 = {k.name(): (str(v.call), sorted(n.symbol.name() for n in v.nonterminals.values())) for k, v in f1.grammar.generators.items()}
    g2 = {k.name(): (str(v.call), sorted(n.symbol.name() for n in v.nonterminals.values())) for k, v in f2.grammar.generators.items()}
    if ({k: v[1] for k, v in g1.items()} != {k: v[1] for k, v in g2.items()}
            or {k: _strip_ids(v[0]) for k, v in g1.items()} != {k: _strip_ids(v[0]) for k, v in g2.items()}):
        msgs.append(f"generators changed by print/read: {g1} -> {g2}\n printed: {p1.strip()[:300]}")
    # (e) only for the grammar: a parenthesised conjunction is legitimately re-read as one python expression
    p2 = repr(f2.grammar)
    if p2 != repr(f1.grammar):
        msgs.append(f"printing is not stable: print(read(print(G))) differs from print(G):\n{repr(f1.grammar)}\n---\n{p2}")
    if case["kind"] == "constraints":
        c1 = [c for c in f1.constraints if type(c).__name__ != "RepetitionBoundsConstraint"]
        c2 = [c for c in f2.constraints if type(c).__name__ != "RepetitionBoundsConstraint"]
        if len(c1) != len(c2):
            msgs.append(f"{len(c1)} constraints printed, {len(c2)} read back")
        else:
            for sd in case["tree_seeds"]:
                random.seed(sd)
                t1 = f1.grammar.fuzz("<start>", max_nodes=25)
                t2 = f2.grammar.parse(str(t1))
                if t2 is None:
                    continue
                root = R.snapshot(t1)
                for fm, a_, b_ in zip(case["formulas"], c1, c2):
                    try:
                        if not case.get("compare_all") and R.evaluate(fm, root) != R.evaluate_joint(fm, root):
                            # known finding C15/and-or-regrouped: a printed conjunction/disjunction is
                            # parenthesised and re-read as ONE python expression (joint quantification)
                            if ctx is not None:
                                ctx.count("known:and-or-regrouped")
                            continue
                    except R.Unspecified:
                        continue
                    try:
                        va = a_.check(t1)
                    except Exception as e:
                        va = type(e).__name__
                    try:
                        vb = b_.check(t2)
                    except Exception as e:
                        vb = type(e).__name__
                    if va != vb:
                        msgs.append(f"constraint verdict changes after print/read on {str(t1)!r}: `{a_.format_as_spec()}` -> {va}, re-read `{b_.format_as_spec()}` -> {vb}")
    if ctx is not None:
        nt = _nontrivial(case, text1)
        ctx.case(text1, nt, ("kind=" + case["kind"],), sample={"original": text1[:400], "printed": p1[:400]})
    return msgs[:4]


class _Shim:
    def __init__(self, spec: Any):
        self.grammar = spec.grammar
        self.constraints = list(spec.constraints)
        self.grammar.update_parser()
        self.grammar.prime()


@st.composite
def sliced_cases(draw: Any) -> dict[str, Any]:
    """A protocol whose alternatives belong to different parties, under postfix operators: sliced to one party (as
    `fandango convert --party` does) some alternatives are left with a single branch."""
    a_alt = draw(st.sampled_from([["seq", [["nt", "ping", "A", "B"], ["nt", "sep"]]], ["nt", "ping", "A", "B"],
                                  ["seq", [["nt", "sep"], ["nt", "ping", "A", "B"], ["nt", "sep"]]]]))
    b_alt = draw(st.sampled_from([["nt", "pong", "B", "A"], ["seq", [["nt", "pong", "B", "A"], ["nt", "sep"]]]]))
    alts = [a_alt, b_alt] if draw(st.booleans()) else [b_alt, a_alt]
    if draw(st.integers(0, 2)) == 0:
        alts.append(["nt", "ping", "A", "B"])
    op = draw(st.sampled_from(["star", "plus", "opt", "rep"]))
    group: Any = ["alt", alts]
    body = [op, group] if op != "rep" else ["rep", group, draw(st.integers(0, 1)), draw(st.integers(2, 3))]
    parts = draw(st.sampled_from([[body, ["nt", "end"]], [["nt", "end"], body], [body]]))
    rules = [["start", ["seq", parts] if len(parts) > 1 else parts[0]], ["ping", ["lit", "ping"]], ["pong", ["lit", "pong"]],
             ["sep", ["lit", ";"]], ["end", ["lit", "end"]]]
    return {"kind": "sliced", "spec": {"rules": rules, "mode": "text", "alphabet": "ab", "parties": True}, "party": draw(st.sampled_from(["A", "A", "B"]))}


def check_sliced(case: dict[str, Any], ctx: Any = None) -> list[str]:
    from fandango.language.parse.parse_spec import parse_content

    lines = [f"<{name}> ::= " + _render_party(rhs) for name, rhs in case["spec"]["rules"]]
    text1 = "\n".join(lines) + "\n"
    try:
        sliced = parse_content(text1, filename="<verif-sliced>", use_cache=False, parties=[case["party"]])
        f1 = _Shim(sliced)
    except Exception as e:
        if ctx is not None:
            ctx.count(f"sliced_original_rejected:{type(e).__name__}")
        return []
    p1 = str(sliced)
    try:
        f2 = _Shim(parse_content(p1, filename="<verif-reread>", use_cache=False))
    except Exception as e:
        return [f"the printed form of the spec sliced to party {case['party']} cannot be read back ({type(e).__name__}: {str(e)[:120]}):\n{p1}"]
    msgs: list[str] = []
    ir1, ir2 = grammar_ir(f1), grammar_ir(f2)
    if ir1 != ir2:
        w = witness(f1, f2, ir1, ir2, case)
        if w is not None:
            msgs.append(f"sliced to party {case['party']}, printed and read back the grammar changes meaning; witness {w[0]!r} is accepted only by "
                        f"the {'sliced' if w[1] else 're-read'} grammar.\n original: {text1.strip()[:300]}\n printed : {p1.strip()[:300]}")
        elif ctx is not None:
            ctx.count("ir_differs_no_witness")
    if ctx is not None:
        ctx.case(text1 + case["party"], True, ("kind=sliced",), sample={"original": text1[:300], "printed": p1[:300], "party": case["party"]})
    return msgs


def _strip_ids(s: str) -> str:
    import re

    return re.sub(r"___fandango_[0-9]+_([0-9]+)___", r"_SYM_", s)


def _annotations(n: Any) -> list[Any]:
    out = []
    if n[0] == "nt":
        out.append(tuple(n[1:]))
    elif n[0] in ("seq", "alt"):
        for c in n[1]:
            out.extend(_annotations(c))
    elif n[0] in ("star", "plus", "opt", "rep", "crep"):
        out.extend(_annotations(n[1]))
    return out


def witness(f1: Any, f2: Any, ir1: Any, ir2: Any, case: dict[str, Any]) -> Any:
    mode = case.get("spec", {}).get("mode", "text")
    words: list[Any] = []
    for ir in (ir1, ir2):
        try:
            sp = plain_ir(ir)
            sp["mode"] = mode
            sem = S.Sem(sp)
            for w in sem.enumerate_words("start", max_len=7 if mode == "text" else 32, cap=150):
                if mode == "text" or len(w) % 8 == 0:
                    words.append(S.word_to_input(w, mode))
        except Exception:
            continue
    seen = set()
    for w in words:
        if w in seen:
            continue
        seen.add(w)
        try:
            with Fuel(30000):
                a = next(iter(f1.grammar.parse_forest(w)), None) is not None
                b = next(iter(f2.grammar.parse_forest(w)), None) is not None
        except FuelExhausted:
            continue
        except Exception:
            continue
        if a != b:
            return (w, a)
    return None


def _nontrivial(case: dict[str, Any], text: str) -> bool:
    if case["kind"] == "constraints":
        return True
    spec = case["spec"]
    found = False

    def walk(n: Any) -> None:
        nonlocal found
        if n[0] in ("star", "plus", "opt", "rep"):
            if n[1][0] in ("seq", "alt", "star", "plus", "opt", "rep"):
                found = True
            if n[0] == "rep" and n[3] is None:
                found = True
            walk(n[1])
        elif n[0] in ("seq", "alt"):
            for c in n[1]:
                walk(c)
        elif n[0] == "lit" and (any(ch in n[1] for ch in ("'", '"', chr(92), chr(10), chr(9))) or not n[1].isascii()):
            found = True

    for _, rhs in spec["rules"]:
        walk(rhs)
    return found


def run_shard(ctx: Any) -> None:
    n1 = 60 if ctx.tier == "quick" else 1000
    n2 = 40 if ctx.tier == "quick" else 600

    @given(grammar_cases())
    def test_g(case: dict[str, Any]) -> None:
        msgs = check_case(case, ctx)
        if msgs:
            ctx.fail(case, msgs)

    @given(constraint_cases())
    def test_c(case: dict[str, Any]) -> None:
        msgs = check_case(case, ctx)
        if msgs:
            ctx.fail(case, msgs)

    @given(sliced_cases())
    def test_s(case: dict[str, Any]) -> None:
        msgs = check_case(case, ctx)
        if msgs:
            ctx.fail(case, msgs)

    ctx.run_test(test_s, 20 if ctx.tier == "quick" else 400, salt="s")
    ctx.run_test(test_g, n1, salt="g")
    ctx.run_test(test_c, n2, salt="c")


def classify(case: dict[str, Any], msgs: list[str]) -> Any:
    return "and-or-regrouped" if case.get("compare_all") else None


def replay(case: dict[str, Any]) -> list[str]:
    return check_case(case, None)
