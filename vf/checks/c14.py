"""C14 - the C++ and the Python spec readers agree (differential).

Domain : spec texts - every .fan file in the repository (docs, tests, evaluation, converters),
         renderings of generated specs with generated python blocks (vf.specgen / vf.pygen),
         and syntactically perturbed variants: token deletion / duplication / swap, indentation
         with tabs and mixed widths, dedent to an unseen level, CRLF and form feeds, comments
         and blank lines in blocks, brackets spanning lines, missing final newline, trailing
         ';', non-ASCII identifiers - valid and invalid alike.
Oracle : with Fandango.parser = "cpp" and = "python": both reject, or both accept with the same
         parse tree (rule-context classes, token types and the text of real tokens; the text of
         the synthetic INDENT / DEDENT / NEWLINE / EOF tokens is ignored - the C++ base emits
         '<DEDENT>' where the Python base emits '') and the same extracted python code text.
         Everything downstream (grammar, constraints, generators) is computed from that tree by
         the same Python code, so equal trees give equal specs.
Rebuild: the C++ reader under test is compiled FROM THE WORKING TREE (tools/build_cpp.sh,
         keyed by a content hash of the C++ sources) and loaded in place of the prebuilt,
         git-ignored .so of the source tree.
"""

from __future__ import annotations

import glob
import importlib.util
import os
import subprocess
import sys
from typing import Any

from hypothesis import given, strategies as st

from vf import common, pygen, spec as S, specgen

PROP = "C14"
LEVEL = "translation_validation"
RULE = (
    "program = spec text (repository .fan files, generated specs with python blocks, perturbed variants); "
    "non-trivial = text on which both readers accept and which contains an indented block or an f-string, or on "
    "which both reject; distinct by hash of the text"
)
ASSUMPTIONS = [
    "equal parse trees imply equal grammar / constraints / code: both readers feed the same Python conversion code",
    "only accept/reject is compared for failures (messages may legitimately differ)",
    "the C++ reader is built from the working tree by tools/build_cpp.sh (cmake + make)",
]
WATCHDOG = {"quick": 1500, "thorough": 7200}


def shards(tier: str) -> int:
    return 16


def preload_cpp() -> str:
    """Build (if needed) and load the working tree's C++ reader under the module name fandango expects."""
    name = "fandango.language.parser.sa_fandango_cpp_parser"
    if name in sys.modules and getattr(sys.modules[name], "__file__", "").startswith(common.VERIF_DIR):
        return sys.modules[name].__file__
    out = subprocess.run([os.path.join(common.VERIF_DIR, "tools", "build_cpp.sh"), common.REPO], capture_output=True, text=True)
    if out.returncode != 0:
        raise common.HarnessError("building the C++ reader failed: " + out.stderr[-500:])
    d = out.stdout.strip().split("\n")[-1]
    so = glob.glob(os.path.join(d, "sa_fandango_cpp_parser*.so"))[0]
    if "fandango" in sys.modules and name in sys.modules:
        raise common.HarnessError("fandango was imported before the C++ reader of the working tree could be installed")
    spec = importlib.util.spec_from_file_location(name, so)
    assert spec is not None and spec.loader is not None
    mod = importlib.util.module_from_spec(spec)
    sys.modules[name] = mod
    spec.loader.exec_module(mod)
    return so


def pre_import() -> None:
    preload_cpp()


def dump(t: Any, synthetic: set[int]) -> Any:
    if hasattr(t, "getSymbol"):
        s = t.getSymbol()
        return ("T", s.type, "" if (s.type in synthetic or s.type < 0) else s.text)
    return ("R", type(t).__name__, [dump(c, synthetic) for c in (t.children or [])])


def read(text: str, parser: str) -> Any:
    import fandango
    from fandango.language.parse.parse_tree import parse_tree
    from fandango.language.parse.spec import CachedFandangoSpec
    from fandango.language.parser.FandangoParser import FandangoParser

    synthetic = {FandangoParser.INDENT, FandangoParser.DEDENT, FandangoParser.NEWLINE, FandangoParser.EOF}
    old = fandango.Fandango.parser
    fandango.Fandango.parser = parser
    try:
        try:
            tree = parse_tree("<verif>", text)
        except Exception as e:
            return ("reject", type(e).__name__)
        d = dump(tree, synthetic)
        try:
            code = CachedFandangoSpec(tree, text, filename="<verif>").code_text
        except Exception as e:
            code = f"<{type(e).__name__}>"
        return ("accept", d, code)
    finally:
        fandango.Fandango.parser = old


def first_diff(a: Any, b: Any, path: str = "") -> str:
    if a[0] != b[0] or a[1] != b[1]:
        return f"{path}: {a[:2]!r} vs {b[:2]!r}"
    if a[0] == "T":
        return "" if a[2] == b[2] else f"{path}: token text {a[2]!r} vs {b[2]!r}"
    if len(a[2]) != len(b[2]):
        return f"{path}/{a[1]}: {len(a[2])} children vs {len(b[2])}"
    for i, (x, y) in enumerate(zip(a[2], b[2])):
        d = first_diff(x, y, f"{path}/{a[1]}[{i}]")
        if d:
            return d
    return ""


def compare(text: str, ctx: Any, origin: str) -> list[str]:
    a = read(text, "cpp")
    b = read(text, "python")
    msgs = []
    if a[0] != b[0]:
        msgs.append(f"C++ reader {a[0]}s ({a[1] if a[0] == 'reject' else ''}) but the Python reader {b[0]}s ({b[1] if b[0] == 'reject' else ''}):\n{text[:600]}")
    elif a[0] == "accept":
        if a[1] != b[1]:
            msgs.append(f"both readers accept but build different parse trees at {first_diff(a[1], b[1])}:\n{text[:600]}")
        elif a[2] != b[2]:
            msgs.append(f"both readers accept but extract different python code:\n--- cpp ---\n{a[2][:300]}\n--- python ---\n{b[2][:300]}")
    if ctx is not None:
        block = ("\n    " in text) or ("\n\t" in text) or ("f'" in text) or ('f"' in text)
        ctx.count(f"outcome={a[0]}/{b[0]}")
        ctx.count("programs")
        ctx.case(text, (a[0] == "accept" and b[0] == "accept" and block) or (a[0] == "reject" and b[0] == "reject"),
                 (f"origin={origin}",), sample={"origin": origin, "text": text[:300], "cpp": a[0], "python": b[0]})
    return msgs


# ---------------------------------------------------------------------------
# text sources

def repo_specs() -> list[str]:
    out = []
    for fn in sorted(glob.glob(os.path.join(common.REPO, "**", "*.fan"), recursive=True)):
        try:
            t = open(fn, encoding="utf-8").read()
        except Exception:
            continue
        if len(t) < 6000:
            out.append(t)
    return out


PERTURB = ["del_tok", "dup_tok", "swap_tok", "tab_indent", "wide_indent", "odd_dedent", "crlf", "formfeed", "comment",
           "blank_in_block", "no_final_newline", "semicolon", "open_bracket", "unicode_ident", "del_char", "del_line"]


def perturb(text: str, kind: str, k: int) -> str:
    lines = text.split("\n")
    toks = text.split(" ")
    if kind == "del_tok" and len(toks) > 1:
        i = k % len(toks)
        return " ".join(toks[:i] + toks[i + 1:])
    if kind == "dup_tok" and toks:
        i = k % len(toks)
        return " ".join(toks[: i + 1] + toks[i:])
    if kind == "swap_tok" and len(toks) > 2:
        i = k % (len(toks) - 1)
        toks[i], toks[i + 1] = toks[i + 1], toks[i]
        return " ".join(toks)
    ind = [i for i, ln in enumerate(lines) if ln.startswith("    ")]
    if kind == "tab_indent" and ind:
        i = ind[k % len(ind)]
        lines[i] = lines[i].replace("    ", "\t", 1 + k % 2)
        return "\n".join(lines)
    if kind == "wide_indent" and ind:
        return "\n".join(("  " + ln if ln.startswith("    ") else ln) for ln in lines)
    if kind == "odd_dedent" and ind:
        i = ind[k % len(ind)]
        lines[i] = lines[i][2:]
        return "\n".join(lines)
    if kind == "crlf":
        return text.replace("\n", "\r\n")
    if kind == "formfeed":
        i = k % max(1, len(lines))
        lines[i] = "\x0c" + lines[i]
        return "\n".join(lines)
    if kind == "comment":
        i = k % max(1, len(lines))
        lines.insert(i, ("    " if i in ind else "") + "# a comment é")
        return "\n".join(lines)
    if kind == "blank_in_block" and ind:
        i = ind[k % len(ind)]
        lines.insert(i, "   " if k % 2 else "")
        return "\n".join(lines)
    if kind == "no_final_newline":
        return text.rstrip("\n")
    if kind == "semicolon":
        i = k % max(1, len(lines))
        lines[i] = lines[i] + ";"
        return "\n".join(lines)
    if kind == "open_bracket":
        return text.replace("(", "(\n        ", 1) if "(" in text else text + "\nx = (1,\n  2)\n"
    if kind == "unicode_ident":
        return text + "\nvärde = 1\n<start2> ::= 'é'\n"
    if kind == "del_char" and text:
        i = k % len(text)
        return text[:i] + text[i + 1:]
    if kind == "del_line" and len(lines) > 1:
        i = k % len(lines)
        return "\n".join(lines[:i] + lines[i + 1:])
    return text


@st.composite
def generated_specs(draw: Any) -> str:
    g = draw(specgen.grammars({"mode": draw(st.sampled_from(["text", "bin"])), "non_ascii": draw(st.booleans())}))
    code = draw(pygen.programs()) if draw(st.booleans()) else ""
    cons = draw(st.lists(st.sampled_from(["len(str(<start>)) > 2", "str(<start>) != 'a'", "1 <= len(str(<start>)) <= 9",
                                          "all(str(k) != 'zz' for k in *<start>)", "f'{<start>}' != 'x y'"]), max_size=2))
    return S.render(dict(g, code=code, constraints=cons))


# texts that exercise the state the two lexer bases keep by hand (bracket depth, f-string mode, indentation):
# f-strings of every prefix with escapes and unmatched brackets in their literal parts, brackets spanning lines,
# blocks - in any order, so that what one construct leaves behind meets every other construct
SNIPPETS = [
    "x = f'{n}) item'\n", 'y = f"a]{n}"\n', "z = f'x}}'\n", "z2 = f'{{x'\n", "u = rf'\\t{3}'\n", "v = f'{1}a\\tb'\n",
    'w = fr"\\d{2}"\n', "q = F'{a!r:>4}'\n", "p = f'({n}'\n", "o = f'{n}' f'{m})'\n", "r = rf'\\n{1}' + f'\\n{2}'\n",
    "k = f'{n:{w}}'\n", 'j = f"""a\n{n}]"""\n',
    "t = (1,\n     2)\n", "l = [\n  1,\n  2,\n]\n", "d = {\n 'a': 1}\n", "c = max(1,\n  len(f'{x}'))\n", "e = (\n)\n",
    "def g(a):\n    return f'{a}]'\n\n", "def h(a):\n    b = (a,\n         1)\n    return b\n\n",
    "if True:\n    s = f'a)'\nelse:\n    s = [1,\n 2]\n\n", "# comment )\n", "m = 'plain ) string'\n", "n = 3\n",
]
GRAMMAR_LINES = ["<start> ::= 'a' | 'b'\n", "<start> ::= <a>{2,}\n<a> ::= 'x' := f'{n}x'\n", "<start> ::= ('a'\n  | 'b')\n",
                 "<start> ::= <a>\n<a> ::= r'[ab]+'\nwhere f'{<a>})' != 'b)'\n", "<start> ::= 'a'\nwhere (len(str(<start>)) >\n  0)\n"]


@st.composite
def lexer_texts(draw: Any) -> str:
    parts = [draw(st.sampled_from(SNIPPETS)) for _ in range(draw(st.integers(2, 6)))]
    g = draw(st.sampled_from(GRAMMAR_LINES))
    pos = draw(st.integers(0, len(parts)))
    text = "".join(parts[:pos]) + g + "".join(parts[pos:])
    if draw(st.integers(0, 5)) == 0:
        text = text.replace("\n", "\r\n")
    return text


def check_case(case: dict[str, Any], ctx: Any = None) -> list[str]:
    preload_cpp()
    common.import_fandango()
    text = case["text"]
    for kind, k in case.get("perturb", []):
        text = perturb(text, kind, k)
    return compare(text, ctx, case.get("origin", "?"))


def run_shard(ctx: Any) -> None:
    preload_cpp()
    common.import_fandango()
    corpus = repo_specs()
    mine = [t for i, t in enumerate(corpus) if i % ctx.nshards == ctx.shard]
    if ctx.tier == "quick":
        mine = mine[:3]
    ctx.notes["repo_specs"] = len(corpus) if ctx.shard == 0 else 0
    for t in mine:
        case = {"text": t, "origin": "repository"}
        msgs = check_case(case, ctx)
        if msgs:
            ctx.record_failure(case, msgs)
    n_gen = 4 if ctx.tier == "quick" else 120
    n_pert = 6 if ctx.tier == "quick" else 200

    @given(generated_specs())
    def test_gen(text: str) -> None:
        case = {"text": text, "origin": "generated"}
        msgs = check_case(case, ctx)
        if msgs:
            ctx.fail(case, msgs)

    base_pool = mine[:3] + [
        "import random\n\ndef f(x):\n    if x:\n        return 1\n    return f'{x} y'\n\n<start> ::= <a>{2,} | 'b'\n<a> ::= 'x' := f(1)\nwhere len(str(<start>)) > 2\n",
        "class P(FandangoParty):\n    def __init__(self):\n        super().__init__(connection_mode=ConnectionMode.OPEN)\n\n    def send(self, m, r):\n        pass\n\n<start> ::= <P:q>\n<q> ::= 'q'\n",
    ]

    @given(st.integers(0, 100), st.lists(st.tuples(st.sampled_from(PERTURB), st.integers(0, 10**4)), min_size=1, max_size=2))
    def test_pert(i: int, ps: list[Any]) -> None:
        case = {"text": base_pool[i % len(base_pool)], "perturb": [list(p) for p in ps], "origin": "perturbed"}
        msgs = check_case(case, ctx)
        if msgs:
            ctx.fail(case, msgs)

    from hypothesis import Phase

    @given(lexer_texts())
    def test_lex(text: str) -> None:
        case = {"text": text, "origin": "lexer_state"}
        msgs = check_case(case, ctx)
        if msgs:
            ctx.fail(case, msgs)

    ctx.run_test(test_lex, 25 if ctx.tier == "quick" else 1500, salt="lex", phases=(Phase.generate,))
    ctx.run_test(test_gen, n_gen, salt="gen", phases=(Phase.generate,))
    ctx.run_test(test_pert, n_pert, salt="pert", phases=(Phase.generate,))


def evidence_extra(cov: dict[str, Any]) -> dict[str, Any]:
    h = cov.get("class_histogram", {})
    return {"programs": h.get("programs", 0),
            "disagreements_checked": h.get("outcome=accept/accept", 0) + h.get("outcome=reject/reject", 0),
            "explanation": "programs = spec texts read by both readers; disagreements_checked = texts on which both verdicts "
                           "(and for accepted texts the full parse trees and extracted code) were compared and agreed"}


def replay(case: dict[str, Any]) -> list[str]:
    return check_case(case, None)
