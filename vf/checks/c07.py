"""C07 - constraint verdicts follow the documented selector / quantifier semantics.

Domain : (tree, constraint program) pairs.  Trees: Grammar.fuzz output of template
         grammars with nested, repeated and optional symbols.  Constraint programs are
         generated from a grammar of the constraint sub-language (atoms with str/int/len/
         startswith/in, comparisons, and/or, selectors . .. [i] [i:j] |..| *, any/all
         comprehensions, exists/forall, nested quantifiers) including atoms that raise on
         some combinations, selectors with no match and indices out of range.
Oracle : vf.refconstraint (independent interpreter on a plain snapshot): truthy for every
         combination, no match => true, raising combination => false.  Compared with
         (i) constraint.check(tree) on freshly parsed constraint objects, (ii) the same with
         lazy=True, (iii) acceptance by Fandango.parse(str(tree)) (template grammars are
         unambiguous).  A check() that raises instead of answering is a disagreement.
Not generated (undefined by the documentation): the same selector text twice in one atom,
         <X>..<X>, use of a bound name outside its quantifier; `or` between atoms that share a
         symbol is a known finding (see known_findings.json) and generated only under a switch.
"""

from __future__ import annotations

import itertools
import random
from typing import Any

from hypothesis import given, strategies as st

from vf import refconstraint as R, spec as S

PROP = "C07"
LEVEL = "exploration"
RULE = (
    "case = (tree of a template grammar, generated constraint program); non-trivial = the reference sees >= 2 "
    "combinations with mixed outcomes, or >= 1 raising combination, or a quantifier over >= 2 matches; "
    "distinct by hash of (constraint text, tree text)"
)
ASSUMPTIONS = [
    "reference interpreter vf/refconstraint.py implements docs/Language.md + docs/Paths.md; python sub-expressions are evaluated by CPython on value objects owned by the check",
    "constructs the documentation leaves undefined are not generated (same selector twice in an atom, <X>..<X>, bound names outside their quantifier)",
    "trees come from generator-free text grammars (no sources)",
]

DIG = ["alt", [["lit", c] for c in "0123456789"]]
GRAMMARS = {
    "recs": {
        "rules": [
            ["start", ["seq", [["nt", "rec"], ["star", ["seq", [["lit", ";"], ["nt", "rec"]]]]]]],
            ["rec", ["seq", [["nt", "name"], ["lit", "="], ["nt", "num"], ["opt", ["nt", "lst"]], ["nt", "pad"]]]],
            ["pad", ["star", ["lit", "_"]]],
            ["name", ["plus", ["nt", "ch"]]],
            ["ch", ["alt", [["lit", "a"], ["lit", "b"], ["lit", "1"]]]],
            ["num", ["rep", ["nt", "d"], 1, 2]],
            ["d", DIG],
            ["lst", ["seq", [["lit", "["], ["nt", "num"], ["star", ["seq", [["lit", ","], ["nt", "num"]]]], ["lit", "]"]]]],
        ],
        "syms": ["rec", "name", "ch", "num", "d", "lst", "pad", "start"],
        "parents": {"rec": ["name", "num", "lst", "pad"], "name": ["ch"], "num": ["d"], "lst": ["num"], "start": ["rec"]},
    },
    "expr": {
        "rules": [
            ["start", ["nt", "sum"]],
            ["sum", ["seq", [["nt", "term"], ["star", ["seq", [["lit", "+"], ["nt", "term"]]]]]]],
            ["term", ["alt", [["nt", "num"], ["seq", [["lit", "("], ["nt", "sum"], ["lit", ")"]]]]]],
            ["num", ["rep", ["nt", "d"], 1, 2]],
            ["d", DIG],
        ],
        "syms": ["sum", "term", "num", "d", "start"],
        "parents": {"sum": ["term"], "term": ["num", "sum"], "num": ["d"], "start": ["sum"]},
    },
}

ATOM_TEMPLATES_1 = [  # one selector of tree kind
    "int($0) % 2 == 0", "int($0) > 4", "str($0) != '7'", "len(str($0)) >= 2", "str($0).startswith('a')",
    "$0.startswith('1')", "$0 == '5'", "str($0)[1] == 'b'", "10 // int($0) >= 2", "not (str($0) == 'a')",
    "'1' in str($0)", "len(str($0)) >= 1", "str($0) != ''", "str($0)[::-1] != 'ba'", "$0.endswith('0')", "int($0) < 50",
    # python expressions (not top-level comparisons) that raise for some matches only
    "0 <= int($0) <= 50", "int($0) in range(3, 40)", "str($0)[1].isdigit()", "bool(10 // int($0))", "not int($0) > 5",
]
ATOM_TEMPLATES_2 = ["int($0) <= int($1)", "str($0) != str($1)", "len(str($0)) <= len(str($1)) + 1", "str($1) in str($0)"]
CMP_TEMPLATES = [("int($0)", ">", "3"), ("str($0)", "==", "'a'"), ("$0", "!=", "'0'"), ("int($0) % 3", "<=", "1"),
                 ("len(str($0))", "<", "2"), ("int($0)", ">=", "int($1)"), ("str($0)", "==", "str($1)")]
LEN_TEMPLATES = ["$0 >= 2", "$0 == 1", "$0 < 3", "$0 != 0"]
STAR_TEMPLATES = ["'5' in $0", "len($0) <= 2", "'a' in $0", "len($0) > 0"]


def shards(tier: str) -> int:
    return 16


@st.composite
def selectors(draw: Any, g: dict[str, Any], bound: list[str], depth: int = 2) -> list[Any]:
    syms = g["syms"]
    base: list[Any]
    if bound and draw(st.integers(0, 1)) == 0:
        b = draw(st.sampled_from(bound))
        if not b.startswith("<"):
            return ["var", b]  # python variables take no selector operators
        base = ["nt", b[1:-1]]
        cur = None  # unknown symbol behind a bound name
    else:
        cur = draw(st.sampled_from(syms))
        base = ["nt", cur]
    sel = base
    steps = draw(st.integers(0, depth))
    if cur is None and depth > 0 and draw(st.integers(0, 9)) < 7:
        steps = max(steps, 1)  # a bound symbol used as the base of a path
    for _ in range(steps):
        op = draw(st.sampled_from(["dot", "dot", "ddot", "idx", "slice"]))
        if op in ("dot", "ddot"):
            kids = g["parents"].get(cur or "", None)
            if op == "dot" and kids and draw(st.integers(0, 3)) > 0:
                nxt = draw(st.sampled_from(kids))
            else:
                nxt = draw(st.sampled_from([s for s in syms if s != cur and s != "start"]))
            sel = [op, sel, nxt]
            cur = nxt
        elif op == "idx":
            sel = ["idx", sel, draw(st.sampled_from([0, 0, 1, 2, 3]))]
            cur = None
            break
        else:
            a = draw(st.sampled_from([None, 0, 1, 2]))
            b = draw(st.sampled_from([None, 0, 1, 2, 3]))
            sel = ["slice", sel, a, b]
            cur = None
            break
    return sel


def _distinct(sels: list[Any]) -> bool:
    texts = [R.sel_text(s) for s in sels]
    return len(set(texts)) == len(texts)


@st.composite
def atoms(draw: Any, g: dict[str, Any], bound: list[str]) -> list[Any]:
    kind = draw(st.sampled_from(["e1", "e1", "e2", "cmp", "len", "star", "pyvar"]))
    pyvars = [b for b in bound if not b.startswith("<")]
    if kind == "pyvar" and pyvars:
        v = draw(st.sampled_from(pyvars))
        t = draw(st.sampled_from(ATOM_TEMPLATES_1)).replace("$0", v)
        return ["expr", t, []]
    if kind == "e2":
        sels = [draw(selectors(g, bound)), draw(selectors(g, bound))]
        if _distinct(sels):
            return ["expr", draw(st.sampled_from(ATOM_TEMPLATES_2)), sels]
        kind = "e1"
    if kind == "cmp":
        l, op, r = draw(st.sampled_from(CMP_TEMPLATES))
        n = 2 if "$1" in r else 1
        sels = [draw(selectors(g, bound)) for _ in range(n)]
        if _distinct(sels):
            return ["cmp", op, l, r, sels]
        kind = "e1"
    if kind == "len":
        return ["expr", draw(st.sampled_from(LEN_TEMPLATES)), [["len", draw(selectors(g, [], 1))]]]
    if kind == "star":
        return ["expr", draw(st.sampled_from(STAR_TEMPLATES)), [["star", draw(selectors(g, [], 1))]]]
    return ["expr", draw(st.sampled_from(ATOM_TEMPLATES_1)), [draw(selectors(g, bound))]]


def _symbols(f: list[Any]) -> set[str]:
    out: set[str] = set()

    def sel(s: list[Any]) -> None:
        if s[0] == "nt":
            out.add(s[1])
        elif s[0] == "var":
            out.add(s[1])
        else:
            sel(s[1])
            if s[0] in ("dot", "ddot"):
                out.add(s[2])

    if f[0] in ("expr", "cmp"):
        for s in f[-1]:
            sel(s)
        if f[0] == "expr":
            out.add(f[1])  # python variables inside the template text
    elif f[0] in ("and", "or"):
        for g in f[1]:
            out |= _symbols(g)
    else:
        sel(f[2])
        out |= _symbols(f[3])
    return out


@st.composite
def bool_formulas(draw: Any, g: dict[str, Any], bound: list[str], depth: int, shared_or: bool) -> list[Any]:
    kind = draw(st.sampled_from(["atom", "atom", "and", "or"])) if depth > 0 else "atom"
    if kind == "atom":
        return draw(atoms(g, bound))
    parts = [draw(bool_formulas(g, bound, depth - 1, shared_or)) for _ in range(draw(st.integers(2, 3)))]
    if kind == "or" and not shared_or:
        # documented semantics and Fandango's agree only if the sides share no symbol
        seen: set[str] = set()
        ok = not bound
        for p in parts:
            s = _symbols(p)
            if s & seen:
                ok = False
            seen |= s
        if not ok:
            kind = "and"
    return [kind, parts]


@st.composite
def formulas(draw: Any, g: dict[str, Any], bound: list[str], depth: int, shared_or: bool) -> list[Any]:
    """Quantifiers only at the top of a constraint or directly inside another quantifier:
    a quantifier under and/or is read by Fandango as one python expression whose selectors
    are searched before the comprehension runs - a corner the documentation does not cover."""
    if depth > 0 and draw(st.integers(0, 2)) > 0:
        style = "inline" if any(not b.startswith("<") for b in bound) or (bound and bound[-1].endswith("i>")) else (
            "old" if bound else draw(st.sampled_from(["old", "inline"])))
        q = draw(st.sampled_from(["forall", "exists"] if style == "old" else ["all", "any"]))
        # an old-style quantifier cannot be nested in an in-line one (syntax); names ending in i> mark in-line binders
        name = f"<k{len(bound)}>" if style == "old" else (f"<k{len(bound)}i>" if draw(st.booleans()) else f"v{len(bound)}")
        sel = draw(selectors(g, [b for b in bound if b.startswith("<")], 1))
        body = draw(formulas(g, bound + [name], depth - 1, shared_or))
        return [q, name, sel, body]
    return draw(bool_formulas(g, bound, 1, shared_or))


@st.composite
def path_quantifiers(draw: Any, gname: str) -> list[Any]:
    """A quantifier over a symbol with several instances whose body reaches the bound symbol ONLY through a path
    (<k>.<x>, <k>..<x>): the verdict of each element depends on the binding although the body's last symbol does
    not name it."""
    over, inner = draw(st.sampled_from({"recs": [("rec", "num"), ("rec", "name"), ("rec", "d"), ("lst", "num"), ("name", "ch")],
                                        "expr": [("term", "num"), ("term", "d"), ("sum", "term"), ("num", "d")]}[gname]))
    style = draw(st.sampled_from(["old", "inline"]))
    q = draw(st.sampled_from(["forall", "exists"] if style == "old" else ["all", "any"]))
    name = "<k0>" if style == "old" else "<k0i>"
    op = "dot" if (inner in GRAMMARS[gname]["parents"].get(over, []) and draw(st.booleans())) else "ddot"
    sel = [op, ["nt", name[1:-1]], inner]
    tmpl = draw(st.sampled_from(["int($0) % 2 == 0", "int($0) > 4", "str($0) != '7'", "len(str($0)) >= 2", "'1' in str($0)",
                                 "str($0).startswith('a')", "int($0) < 50"]))
    return [q, name, ["nt", over], ["expr", tmpl, [sel]]]


@st.composite
def cases(draw: Any) -> dict[str, Any]:
    gname = draw(st.sampled_from(sorted(GRAMMARS)))
    g = GRAMMARS[gname]
    fms = [draw(formulas(g, [], 2, False)) for _ in range(draw(st.integers(2, 5)))]
    big = draw(st.integers(0, 2)) == 0
    if big:
        fms.append(draw(path_quantifiers(gname)))
    return {
        "grammar": gname,
        "tree_seed": draw(st.integers(0, 10**6)),
        "max_nodes": 45 if big else draw(st.sampled_from([8, 20, 45])),
        "formulas": fms,
    }


_CACHE: dict[str, Any] = {}


def _fan(gname: str) -> Any:
    if gname not in _CACHE:
        _CACHE[gname] = S.load({"rules": GRAMMARS[gname]["rules"], "mode": "text"})
    return _CACHE[gname]


def parse_constraint(f: Any, text: str, lazy: bool) -> Any:
    from fandango.language.parse.parse import parse

    _, cs = parse([], [text], given_grammars=[f.grammar], use_stdlib=False, use_cache=False, lazy=lazy,
                  start_symbol="<start>")
    assert len(cs) == 1
    return cs[0]


def check_case(case: dict[str, Any], ctx: Any = None) -> list[str]:
    gname = case["grammar"]
    f = _fan(gname)
    random.seed(case["tree_seed"])
    tree = f.grammar.fuzz("<start>", max_nodes=case["max_nodes"])
    word = str(tree)
    root = R.snapshot(tree)
    msgs: list[str] = []
    for fm in case["formulas"]:
        ctext = R.text(fm)
        try:
            want = R.evaluate(fm, root)
            st_ = R.stats(fm, root)
            joint = R.evaluate_joint(fm, root)
        except R.Unspecified:
            if ctx is not None:
                ctx.count("set_aside_unspecified_value")
            continue
        if joint != want:
            # the two readings of and/or (per operand / per combination of all symbols) disagree:
            # the documentation does not choose, so nothing is demanded
            if ctx is not None:
                ctx.count("set_aside_reading_of_and_or_ambiguous")
            continue
        verdicts = {}
        for lazy in (False, True):
            try:
                c = parse_constraint(f, ctext, lazy)
            except Exception as e:
                verdicts[lazy] = f"<spec rejected: {type(e).__name__}: {str(e)[:80]}>"
                continue
            try:
                verdicts[lazy] = bool(c.check(tree))
            except Exception as e:
                verdicts[lazy] = f"<check raised {type(e).__name__}: {str(e)[:80]}>"
        if isinstance(verdicts[False], str) and verdicts[False].startswith("<spec rejected"):
            if ctx is not None:
                ctx.count("constraint_rejected_by_reader")
                why = verdicts[False].split(":", 2)[-1].strip()[:60]
                ctx.count("reader_rejected:" + ("no such child (static path check)" if "has no child" in verdicts[False] or "not found" in verdicts[False] else why))
            continue
        for lazy, got in verdicts.items():
            if got != want:
                msgs.append(
                    f"constraint `{ctext}` on {word!r} ({gname}): check(lazy={lazy}) says {got}, "
                    f"reference says {want} (combos={st_['combos']}, true={st_['true']}, false={st_['false']}, "
                    f"raising={st_['raising']}, quantified matches={st_['quant_matches']})"
                )
        # (iii) acceptance through the API
        if len(word) <= 40:
            try:
                fc = _with_constraint(gname, ctext)
                acc = len(list(itertools.islice(fc.parse(word), 2))) > 0
                if acc != want:
                    msgs.append(f"constraint `{ctext}`: Fandango.parse({word!r}) {'accepts' if acc else 'rejects'}, reference verdict {want}")
            except Exception as e:
                if ctx is not None:
                    ctx.count(f"api_raised:{type(e).__name__}")
        if ctx is not None:
            mixed = st_["true"] > 0 and (st_["false"] > 0 or st_["raising"] > 0)
            nontrivial = (st_["combos"] >= 2 and mixed) or st_["raising"] >= 1 or st_["quant_matches"] >= 2
            cl = ["verdict=" + str(want), "kind=" + fm[0]]
            if st_["raising"]:
                cl.append("has_raising_combination")
            if st_["combos"] == 0 and fm[0] in ("expr", "cmp"):
                cl.append("no_match")
            ctx.case({"c": ctext, "w": word}, nontrivial, tuple(cl),
                     sample={"constraint": ctext, "word": word, "reference": want, "stats": st_})
    return msgs


def _with_constraint(gname: str, ctext: str) -> Any:
    from fandango import Fandango

    # the spec's own python code defines the names the in-line quantifiers use for their variables: as in a Python
    # comprehension, the bound variable hides the module-level name
    text = S.render({"rules": GRAMMARS[gname]["rules"], "mode": "text", "constraints": [ctext],
                     "code": "v0 = '5'\nv1 = 'a'\nv2 = '10'\nv3 = '0'\n"})
    return Fandango(text, use_stdlib=False, use_cache=False)


def run_shard(ctx: Any) -> None:
    n = 60 if ctx.tier == "quick" else 2500

    @given(cases())
    def test(case: dict[str, Any]) -> None:
        msgs = check_case(case, ctx)
        if msgs:
            ctx.fail(case, msgs)

    ctx.run_test(test, n)


def replay(case: dict[str, Any]) -> list[str]:
    return check_case(case, None)
