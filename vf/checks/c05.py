"""C05 - what Fandango generates, Fandango parses back; every word of L(G) is accepted.

Domain : generated specs (text / binary, optional parts, nested repetitions, regexes)
         x words from two independent sources: Grammar.fuzz / Fandango.fuzz output and
         the reference enumerator of L(G) (all words up to the length bound, capped).
Oracle : Fandango.parse(word) yields >= 1 tree whose serialisation is identical to the
         word and which the reference accepts as a derivation (= cli validate() passes).
Class  : completeness is demanded only for words that have a derivation in which every
         regex leaf takes the match re.match() finds (Sem.recognise(greedy=True)); the
         number of words set aside by this rule is reported.
"""

from __future__ import annotations

import itertools
import random
from typing import Any

from hypothesis import given, strategies as st

from vf import spec as S, specgen
from vf.harness import Fuel, FuelExhausted
from vf.checks.c04 import from_input, to_input

PROP = "C05"
LEVEL = "exploration"
RULE = (
    "case = (generated spec, word of L(G)); words come from Grammar.fuzz/Fandango.fuzz and from the reference "
    "enumerator; non-trivial = word of >= 2 units whose spec uses a repetition, option or regex; "
    "distinct by hash of (spec, word)"
)
ASSUMPTIONS = [
    "words without a greedy-regex derivation are set aside (class named in the property statement) and counted",
    "words are at most 8 characters / 4 bytes; parser state budget hits are inconclusive, not violations",
    "binary specs: fixed-width bit fields, ASCII-only regexes (non-ASCII text literals are generated)",
]


def shards(tier: str) -> int:
    return 16


@st.composite
def ingredients(draw: Any) -> dict[str, Any]:
    mode = draw(st.sampled_from(["text", "text", "bin"]))
    sw: dict[str, Any] = {"mode": mode}
    sw["non_ascii"] = draw(st.integers(0, 3 if mode == "text" else 1)) == 0
    if mode == "text":
        sw["empty_literal"] = draw(st.integers(0, 5)) == 0
        sw["regex"] = draw(st.sampled_from(["guarded", "guarded", "none", "empty"]))
    pick = draw(st.integers(0, 7))
    if pick == 7:
        # directed: non-ASCII text BEHIND binary material (bytes, a bytes regex or a byte made of bits)
        pre = draw(st.sampled_from([["blit", "01"], ["brx", "[ab]"], ["seq", [["bit", 0], ["bit", 1]] + [["alt", [["bit", 0], ["bit", 1]]] for _ in range(6)]]]))
        cur = draw(st.lists(st.sampled_from(["é", "ü", "€", "µm", "b"]), min_size=1, max_size=3, unique=True))
        tail = draw(st.sampled_from([[], [["opt", ["blit", "00"]]], [["blit", "7e"]]]))
        spec = {"rules": [["start", ["seq", [["nt", "pre"], ["nt", "cur"]] + tail]], ["pre", pre], ["cur", ["alt", [["lit", c] for c in cur]]]],
                "mode": "bin", "alphabet": "ab"}
    else:
        spec = draw(overlap_specs()) if pick < 2 else draw(specgen.grammars(sw))
    return {
        "spec": spec,
        "idx": draw(st.lists(st.integers(0, 10**6), min_size=4, max_size=25)),
        "fuzz_seeds": draw(st.lists(st.integers(0, 10**6), min_size=1, max_size=6)),
        "search_seed": draw(st.one_of(st.none(), st.integers(0, 1000))),
    }


@st.composite
def overlap_specs(draw: Any) -> dict[str, Any]:
    """One repeated nonterminal that is entered at several input offsets (shared by alternatives with prefixes that
    are prefixes of each other); only the end of the word tells which entry was meant."""
    unit = draw(st.sampled_from([["lit", "a"], ["lit", "a"], ["alt", [["lit", "a"], ["lit", "b"]]], ["lit", "aa"], ["nt", "u"]]))
    kind = draw(st.sampled_from(["star", "star", "plus", "rep"]))
    s_rhs = [kind, unit] if kind != "rep" else ["rep", unit, draw(st.integers(0, 2)), draw(st.integers(4, 7))]
    k = draw(st.integers(2, 4))
    if draw(st.integers(0, 3)) > 0:
        # a chain of prefixes that are prefixes of each other, told apart only by the last letter
        counts = draw(st.lists(st.integers(0, 4), min_size=k, max_size=k, unique=True))
        pres = ["a" * c for c in sorted(counts)]
        posts = list("xyzw"[:k])
    else:
        pres = [draw(st.sampled_from(["", "a", "aa", "aaa", "ab", "b"])) for _ in range(k)]
        posts = [draw(st.sampled_from(["x", "y", "z", "", "a", "b"])) for _ in range(k)]
    rules: list[Any] = []
    if draw(st.booleans()):
        alts = []
        for pre, post in zip(pres, posts):
            parts = ([["lit", pre]] if pre else []) + [["nt", "s"]] + ([["lit", post]] if post else [])
            alts.append(["seq", parts] if len(parts) > 1 else parts[0])
        rules.append(["start", ["alt", alts]])
    else:
        rules.append(["start", ["seq", [["nt", "pre"], ["nt", "s"], ["nt", "post"]]]])
        rules.append(["pre", ["alt", [["lit", p] for p in pres]]])
        rules.append(["post", ["alt", [["lit", p] for p in posts]]])
    rules.append(["s", s_rhs])
    if unit == ["nt", "u"]:
        rules.append(["u", ["alt", [["lit", "a"], ["seq", [["lit", "a"], ["lit", "b"]]]]]])
    return {"rules": rules, "mode": "text"}


def build_case(ing: dict[str, Any]) -> dict[str, Any]:
    spec = ing["spec"]
    mode = spec["mode"]
    sem = S.Sem(spec)
    maxlen = 8 if mode == "text" else 32
    words = [S.word_to_input(w, mode) for w in sem.enumerate_words("start", max_len=maxlen, cap=300)
             if mode == "text" or len(w) % 8 == 0]
    enum = []
    seen = set()
    if words:
        if len(words) <= 40:
            enum = list(words)
        else:
            # half of the picks from the longest third (deep repetition nesting needs room)
            long_ = words[2 * len(words) // 3:]
            for n_, i in enumerate(ing["idx"]):
                pool = long_ if n_ % 2 else words
                w = pool[i % len(pool)]
                if w not in seen:
                    seen.add(w)
                    enum.append(w)
    gen: list[Any] = []
    try:
        f = S.load(spec)
        for sd in ing["fuzz_seeds"]:
            random.seed(sd)
            try:
                t = f.grammar.fuzz("<start>", max_nodes=15)
                w = str(t) if mode == "text" else bytes(t)
            except Exception:
                continue
            if len(w) <= (8 if mode == "text" else 4):
                gen.append(w)
        if ing["search_seed"] is not None:
            try:
                sols = f.fuzz(desired_solutions=3, max_generations=3, population_size=5, random_seed=ing["search_seed"], max_nodes=15)
                for t in sols:
                    w = str(t) if mode == "text" else bytes(t)
                    if len(w) <= (8 if mode == "text" else 4):
                        gen.append(w)
            except Exception:
                pass
    except Exception:
        pass
    return {"spec": spec, "enum": [from_input(w) for w in enum], "gen": [from_input(w) for w in gen],
            "tree_seeds": list(ing["fuzz_seeds"])}


def check_case(case: dict[str, Any], ctx: Any = None) -> list[str]:
    spec = case["spec"]
    mode = spec["mode"]
    msgs: list[str] = []
    sem = S.Sem(spec)
    text = S.render(spec)
    f = S.load(spec)
    kinds = specgen.uses(spec)
    interesting = bool(kinds & {"star", "plus", "opt", "rep", "rx", "brx"})
    for src in ("enum", "gen"):
        for ci in case[src]:
            inp = to_input(ci)
            units = S.input_to_units(inp, mode)
            if not sem.recognise(units, "start"):
                # an enumerated word outside L(G) would be a harness bug; a GENERATED one is a broken derivation (C01) -
                # and a broken round trip as well if Fandango does not even read its own output back
                if src == "enum":
                    raise AssertionError(f"enumerator produced a word outside L(G): {inp!r}\n{text}")
                if ctx is not None:
                    ctx.count("generated_word_not_in_L")
                try:
                    with Fuel():
                        back = [t for t in itertools.islice(f.parse(inp), 12)]
                    if not any((str(t) if mode == "text" else bytes(t)) == inp for t in back):
                        msgs.append(f"word {inp!r} generated by Fandango is not parsed back by the same spec ({len(back)} tree(s)); "
                                    f"the reference does not accept it as a word of L(G) either")
                except FuelExhausted:
                    pass
                except Exception as e:
                    msgs.append(f"Fandango.parse({inp!r}) raised {type(e).__name__}: {e} for a word Fandango generated")
                continue
            if not sem.recognise(units, "start", greedy=True):
                if ctx is not None:
                    ctx.count("set_aside_non_greedy")
                continue
            if mode == "bin" and inp.isascii() and len(inp) % 2 == 0:
                # one Fandango object serves str and bytes inputs (a text-only tree of a binary spec serialises to
                # str): hand the same word in as text first - its outcome is not judged here (the tree-input block
                # below judges text-only trees), only that the bytes parse afterwards is unaffected
                try:
                    with Fuel():
                        list(itertools.islice(f.parse(inp.decode("ascii")), 2))
                    if ctx is not None:
                        ctx.count("text_form_parsed_first")
                except (FuelExhausted, Exception):
                    pass
            try:
                with Fuel():
                    trees = list(itertools.islice(f.parse(inp), 12))
            except FuelExhausted:
                if ctx is not None:
                    ctx.count("inconclusive_fuel")
                continue
            except Exception as e:
                msgs.append(f"Fandango.parse({inp!r}) raised {type(e).__name__}: {e} for a word of L(G) [{src}]")
                continue
            ok = False
            for t in trees:
                try:
                    ser = str(t) if mode == "text" else bytes(t)
                except Exception:
                    continue
                if ser == inp and not sem.derives(t, "start"):
                    ok = True
                    break
            if not ok:
                msgs.append(
                    f"word {inp!r} [{'generated by Fandango' if src == 'gen' else 'enumerated'}] is in L(G) "
                    f"(greedy-regex derivation exists) but Fandango.parse yields {len(trees)} tree(s), none identical"
                )
            if ctx is not None:
                cl = ["mode=" + mode, "src=" + src]
                cl += [f"uses_{k}" for k in sorted(kinds & {"rx", "brx", "opt", "star", "plus", "rep", "openrep", "recursion"})]
                ctx.case({"s": text, "w": ci}, interesting and len(units) >= 2, tuple(cl),
                         sample={"spec": text, "word": repr(inp), "source": src, "trees": len(trees)})
    # the generated tree itself handed to parse(): Fandango serialises it (str for text-only trees, bytes
    # otherwise - also inside one binary spec) and must get the same value back
    for sd in case.get("tree_seeds", []):
        random.seed(sd)
        try:
            t = f.grammar.fuzz("<start>", max_nodes=15)
            as_bytes = t.should_be_serialized_to_bytes()
            val = bytes(t) if as_bytes else str(t)
        except Exception:
            continue
        if len(val) > (8 if not as_bytes else 4):
            continue
        units = S.tree_units(t, mode)
        if not sem.recognise(units, "start", greedy=True):
            continue
        try:
            with Fuel():
                trees = list(itertools.islice(f.parse(t), 12))
        except FuelExhausted:
            continue
        except Exception as e:
            msgs.append(f"Fandango.parse(<generated tree {val!r}>) raised {type(e).__name__}: {e}")
            continue
        same = False
        for r in trees:
            try:
                if (bytes(r) if as_bytes else str(r)) == val:
                    same = True
            except Exception:
                pass
        if not same:
            msgs.append(f"the generated tree with value {val!r} is not parsed back by Fandango.parse(tree): {len(trees)} tree(s), none identical")
        if ctx is not None:
            ctx.count("tree_inputs")
    return msgs


def classify(case: dict[str, Any], msgs: list[str]) -> Any:
    return None


def run_shard(ctx: Any) -> None:
    n = 30 if ctx.tier == "quick" else 700

    @given(ingredients())
    def test(ing: dict[str, Any]) -> None:
        case = build_case(ing)
        msgs = check_case(case, ctx)
        if msgs:
            ctx.fail(case, msgs)

    ctx.run_test(test, n)


def replay(case: dict[str, Any]) -> list[str]:
    return check_case(case, None)
