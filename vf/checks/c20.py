"""C20 - a protocol run is always a valid, correctly attributed interaction.

Domain : end-to-end Fandango.fuzz(mode=FuzzingMode.IO) on generated protocol specs (the
         protocol IRs of C19 with message bodies that carry a value and per-type constraints).
         The spec defines a fuzzer-side party (it reports every send() to the harness) and
         external parties played by the harness following a generated SCRIPT - per expected
         remote message one of: valid reply, wrong type, constraint-violating, truncated then
         silent - and a generated DELIVERY SCHEDULE: how each reply is cut into chunks and at
         which virtual times the chunks arrive.  A virtual clock (vf.iodriver) replaces `time`
         in fandango.io.packetparser and fandango.evolution.algorithm, so the schedule is the
         harness's, not the OS's.
Oracle : history invariant on the resulting interaction tree -
         (1) the message sequence is a prefix of the protocol language (reference regex with
             derivatives) and complete when a fault-free run ends normally;
         (2) attribution: the fuzzer-side messages of the tree are exactly the recorded send()
             calls, in order, with their recipients; the concatenation of the messages
             attributed to an external party is a prefix of what that party delivered;
         (3) every sent message satisfies its constraint;
         (4) after an injected fault the offending data is in no accepted message and the run
             ends with an error or an incomplete interaction.
"""

from __future__ import annotations

from typing import Any

from hypothesis import given, strategies as st

from vf import iodriver
from vf.harness import Fuel, FuelExhausted
from vf.checks import c19

PROP = "C20"
LEVEL = "fault_enumeration"
RULE = (
    "case = (protocol spec, peer script, delivery schedule); non-trivial = run with >= 2 remote messages, or >= 1 reply "
    "delivered in >= 2 chunks across a virtual tick, or a fault injected after >= 1 successful exchange; distinct by "
    "hash of (spec, script, schedule); oracle (5): in a fault-free run valid remote data is never rejected"
)
ASSUMPTIONS = [
    "logical arrival orders under a harness-owned virtual clock are covered; data races between real threads inside add_receive/clear_by_party are not (no thread runs in the harness)",
    "the external parties speak when the protocol allows only external senders next; with a pipeline step they put the next message(s) on the wire without waiting for the fuzzer (first fragments keep the order of the interaction, one party's messages stay in order, everything else may interleave)",
]

CONSTRAINTS = {"m1": ("int(<m1>.<v>) % 2 == 0", lambda v: v % 2 == 0), "m2": ("int(<m2>.<v>) >= 10", lambda v: v >= 10)}


def shards(tier: str) -> int:
    return 16


def type_of(text: str) -> str:
    """Message type of a message text ('m2:5;7.' is the long form m2l of 'm2:5;')."""
    t = text.split(":")[0]
    return t + "l" if text.endswith(".") else t


def spec_text(proto: dict[str, Any]) -> str:
    base = c19.render(proto).split("\n\n")[0]
    lines = [ln for ln in base.split("\n") if not any(ln.startswith(f"<{t}> ::=") for t in proto["types"])]
    for t in proto["types"]:
        if t.endswith("l"):
            # a message type whose shorter sibling is a prefix of it
            lines.append(f"<{t}> ::= '{t[:-1]}:' <v> ';' <v> '.'")
        else:
            lines.append(f"<{t}> ::= '{t}:' <v> ';'")
    lines.append("<v> ::= <digit>{1,2}")
    lines.append("<digit> ::= '0' | '1' | '2' | '3' | '4' | '5' | '6' | '7' | '8' | '9'")
    for t in proto["types"]:
        if t in CONSTRAINTS:
            lines.append(f"where {CONSTRAINTS[t][0]}")
    code = ["from vf.iodriver import DRIVER", ""]
    for i, p in enumerate(proto["parties"]):
        if i == 0:
            code.append(f"class {p}(FandangoParty):\n    def __init__(self):\n        super().__init__(connection_mode=ConnectionMode.OPEN)\n"
                        f"    def send(self, message, recipient):\n        DRIVER.on_send(self.party_name, message, recipient)\n"
                        f"    def start(self):\n        pass\n    def stop(self):\n        pass\n")
        else:
            code.append(f"class {p}(FandangoParty):\n    def __init__(self):\n        super().__init__(connection_mode=ConnectionMode.EXTERNAL)\n"
                        f"    def start(self):\n        pass\n    def stop(self):\n        pass\n")
    return "\n".join(lines) + "\n\n" + "\n".join(code)


def make_text(proto: dict[str, Any]) -> Any:
    def make(sym: Any, value: int, kind: str) -> str:
        s, r, t = sym
        v = value % 100
        ok = CONSTRAINTS.get(t, (None, lambda x: True))[1]
        if kind == "wrong_type":
            return f"zz:{v};"
        if t.endswith("l"):
            return f"{t[:-1]}:{v};{(v * 7) % 100}."
        if kind == "violating" and t in CONSTRAINTS:
            while ok(v):
                v = (v + 1) % 100
            return f"{t}:{v};"
        while not ok(v):
            v = (v + 1) % 100
        return f"{t}:{v};"

    return make


def _m(t: str, s: str, r: str) -> list[Any]:
    return ["nt", t, s, r]


@st.composite
def directed_protocols(draw: Any) -> dict[str, Any]:
    """Shapes the general generator rarely produces: the same message type from two different external parties at
    alternative positions; several external messages in a row (same or different senders: pipelining, interleaved
    fragments); two message types of one sender of which one is a prefix of the other."""
    shape = draw(st.sampled_from(["two_senders", "ext_sequence_mixed", "ext_sequence_same", "prefix_types"]))
    head = draw(st.sampled_from([[], [_m("m4", "A", "B")]]))
    if shape == "two_senders":
        body: Any = ["alt", [["seq", [_m("m1", "B", "A"), _m("m2", "A", "B")]], ["seq", [_m("m1", "C", "A"), _m("m3", "A", "C")]]]]
        rules = [["start", ["seq", head + [body] + draw(st.sampled_from([[], [_m("m3", "A", "C")], [["opt", body]]]))]]]
        return {"rules": rules, "parties": ["A", "B", "C"], "types": ["m1", "m2", "m3", "m4"], "shape": shape}
    if shape == "ext_sequence_mixed":
        seq_ = [_m("m2", "B", "A"), _m("m3", "C", "A")]
        if draw(st.booleans()):
            seq_.append(_m("m1", "B", "A"))
        rules = [["start", ["seq", [_m("m4", "A", "B")] + seq_ + [_m("m4", "A", "C")]]]]
        return {"rules": rules, "parties": ["A", "B", "C"], "types": ["m1", "m2", "m3", "m4"], "shape": shape}
    if shape == "ext_sequence_same":
        seq_ = [_m("m2", "B", "A"), _m("m3", "B", "A")] + draw(st.sampled_from([[], [_m("m1", "B", "A")]]))
        rules = [["start", ["seq", head + seq_ + [_m("m4", "A", "B")]]]]
        return {"rules": rules, "parties": ["A", "B"], "types": ["m1", "m2", "m3", "m4"], "shape": shape}
    rules = [["start", ["seq", [_m("m4", "A", "B"), ["alt", [_m("m3", "B", "A"), _m("m3l", "B", "A")]], _m("m1", "B", "A"), _m("m4", "A", "B")]]]]
    return {"rules": rules, "parties": ["A", "B"], "types": ["m1", "m3", "m3l", "m4"], "shape": shape}


@st.composite
def cases(draw: Any) -> dict[str, Any]:
    proto = draw(directed_protocols()) if draw(st.integers(0, 2)) == 0 else draw(c19.protocols())
    # keep interactions short: whole runs re-forecast after every message and the cost of that grows quickly
    # with the history (unbounded loops are C19's business)
    for rule in proto["rules"]:
        rule[1] = _bound_loops(rule[1])
    script = []
    for i in range(draw(st.integers(0, 6))):
        kind = draw(st.sampled_from(["valid"] * 6 + ["wrong_type", "violating", "truncated"]))
        script.append({"kind": kind, "pick": draw(st.integers(0, 3)), "value": draw(st.integers(0, 99)), "pipeline": draw(st.booleans()),
                       "chunks": draw(st.lists(st.integers(1, 4), min_size=1, max_size=3)),
                       "gaps": draw(st.lists(st.sampled_from([0.0, 0.01, 0.03, 0.2, 0.6]), min_size=1, max_size=3))})
    if proto.get("shape") in ("prefix_types", "ext_sequence_same", "ext_sequence_mixed") and draw(st.integers(0, 3)) > 0:
        # these shapes exist for peers that do not wait: make the first remote message a valid, pipelined one
        lead = {"kind": "valid", "pick": draw(st.integers(0, 1)), "value": draw(st.integers(0, 99)), "pipeline": True,
                "chunks": draw(st.lists(st.integers(1, 4), min_size=1, max_size=3)),
                "gaps": draw(st.lists(st.sampled_from([0.0, 0.01, 0.03, 0.2]), min_size=1, max_size=3))}
        follow = dict(lead, pick=draw(st.integers(0, 3)), pipeline=draw(st.booleans()))
        script = [lead, follow] + script[:4]
    return {"proto": proto, "script": script, "seed": draw(st.integers(0, 10**6)), "gens": draw(st.sampled_from([9, 30]))}


def check_case(case: dict[str, Any], ctx: Any = None) -> list[str]:
    import fandango.evolution.algorithm as alg
    import fandango.io.packetparser as pp
    from fandango import Fandango
    from fandango.language.grammar import FuzzingMode

    proto = case["proto"]
    rules = {name: rhs for name, rhs in proto["rules"]}
    regex0 = c19.to_regex(rules["start"], rules)
    text = spec_text(proto)
    bodies = {}
    for name, rhs in proto["rules"]:
        _collect_syms(rhs, bodies)
    plan = {"regex": regex0, "deriv": c19.deriv, "first": c19.first, "external": set(proto["parties"][1:]),
            "script": case["script"], "make": make_text(proto), "bodies": bodies, "constrained": set(CONSTRAINTS),
            "dist": dist_to_end}
    D = iodriver.DRIVER
    D.reset(plan)
    try:
        f = Fandango(text, use_stdlib=False, use_cache=False)
    except Exception as e:
        if ctx is not None:
            ctx.count(f"spec_rejected:{type(e).__name__}")
        return []
    D.io = f.grammar.get_spec_env()[0]["FandangoIO"].instance()
    old_time = (alg.time, pp.time)
    alg.time = iodriver.Clock(D, True)  # type: ignore[assignment]
    pp.time = iodriver.Clock(D, False)  # type: ignore[assignment]
    # a run that fails (search budget used up, remote message rejected, time-out) is REPORTED through
    # print_exception and its interaction so far is yielded as the result of the run: record the report
    reported: list[str] = []
    old_print = alg.print_exception
    alg.print_exception = lambda e, *a, **k: reported.append(f"{type(e).__name__}: {str(e)[:150]}")  # type: ignore[assignment]
    error = None
    result = None
    try:
        try:
            with Fuel(2500, 200):  # also bounds the tree nodes built (deep copies in forecasting)
                res = f.fuzz(mode=FuzzingMode.IO, population_size=4, desired_solutions=1, max_generations=case["gens"],
                             random_seed=case["seed"])
            result = res[0] if res else None
        except FuelExhausted:
            # forecasting parses the history in prefix mode, which can diverge (known finding C06/prefix-mode)
            if ctx is not None:
                ctx.count("inconclusive_fuel")
            return []
        except Exception as e:
            error = f"{type(e).__name__}: {str(e)[:150]}"
    finally:
        alg.time, pp.time = old_time  # type: ignore[assignment]
        alg.print_exception = old_print  # type: ignore[assignment]
    if error is None and reported:
        error = "reported: " + reported[0]
    msgs: list[str] = []
    faults = list(D.faults)
    fault_free = not faults
    history = []
    if result is not None:
        history = [(m.sender, m.recipient, str(m.msg)) for m in result.protocol_msgs()]
    # (1) prefix of the protocol language
    state = regex0
    for s, r, t in history:
        sym = (s, r, type_of(t))
        state = c19.deriv(state, sym)
        if state == c19.EMPTY:
            msgs.append(f"the interaction tree holds {history}, which is not a prefix of any interaction of the spec (at {sym})")
            break
    if result is not None and error is None and fault_free and state != c19.EMPTY and not c19.nullable(state):
        if not D.silent and len(D.events) > 0:
            # a fault-free run that ended normally must be a full interaction (unless nobody could continue)
            nxt = c19.first(state)
            if not any(s_[0] in plan["external"] for s_ in nxt) or True:
                msgs.append(f"fault-free run ended normally with the incomplete interaction {history}; next allowed {sorted(nxt)}")
    # (5) valid remote data reaches the fuzzer: in a run in which every peer behaved validly (the harness owns the
    #     clock and the peers answer whenever it is their turn) Fandango must not blame the remote side - a time-out
    #     waiting for a party, an "unexpected party", fragments that "could not be parsed" or a response that "does
    #     not match" mean that delivered data was lost or misread.  Other failures of the run (search budget used up,
    #     internal errors before any remote data is involved) are counted, not judged under this property.
    BLAME = ("Timed out while waiting", "Timeout while waiting", "Unexpected party", "Could not parse received", "does not match constraints",
             "Couldn't derive parameters")
    if fault_free and error is not None and not D.silent:
        if any(b in error for b in BLAME):
            msgs.append(f"fault-free run: Fandango rejects valid remote data: {error}; interaction so far {history}; events: {D.events[-6:]}")
        elif ctx is not None:
            ctx.count("fault_free_run_failed_otherwise:" + error.split(":")[0].replace("reported", "").strip()[:40])
    # (2) attribution
    fuzzer = proto["parties"][0]
    mine = [(s, r, t) for s, r, t in history if s == fuzzer]
    if result is not None and mine != D.sent:
        msgs.append(f"fuzzer-side messages in the tree {mine} differ from the recorded send() calls {D.sent}")
    for p in proto["parties"][1:]:
        got = "".join(t for s, r, t in history if s == p)
        if not D.delivered.get(p, "").startswith(got):
            msgs.append(f"messages attributed to {p} ({got!r}) are not a prefix of what {p} delivered ({D.delivered.get(p, '')!r})")
    # (3) sent messages satisfy their constraints
    for s, r, t in D.sent:
        typ, val = t.split(":")[0], t.split(":")[1].rstrip(";")
        if typ in CONSTRAINTS and not CONSTRAINTS[typ][1](int(val)):
            msgs.append(f"sent message {t!r} violates `{CONSTRAINTS[typ][0]}`")
    # (4) faults are not accepted
    for kind, bad in faults:
        if kind in ("wrong_type", "violating") and any(t == bad for s, r, t in history if s != fuzzer):
            msgs.append(f"{kind} remote message {bad!r} was accepted into the interaction {history}")
    if faults and result is not None and error is None and state != c19.EMPTY and c19.nullable(state) and faults[0][0] != "truncated":
        # a run with a rejected remote message cannot have ended as a full interaction that includes it
        pass
    if ctx is not None:
        remote = [h for h in history if h[0] != fuzzer]
        multi_chunk = any(len(st_["chunks"]) > 1 or st_["chunks"][0] < 4 for st_ in case["script"][: D.script_pos])
        nontrivial = len(remote) >= 2 or (len(remote) >= 1 and multi_chunk) or (bool(faults) and len(history) >= 1)
        ctx.case({"s": text, "sc": case["script"], "seed": case["seed"]}, nontrivial,
                 ("faults" if faults else "fault_free", "error" if error else "returned", f"remote={min(len(remote), 3)}"),
                 sample={"spec": text.split("\n\n")[0], "script": [s_["kind"] for s_ in case["script"]], "history": history,
                         "error": error, "events": D.events[:12]})
        ctx.count("virtual_seconds", int(D.now))
        ctx.count("pipelined_messages", D.pipelined)
        if proto.get("shape"):
            ctx.count("shape=" + proto["shape"])
    return msgs[:4]


def dist_to_end(r: Any, limit: int = 6) -> int:
    """Least number of further messages after which the interaction can be complete."""
    frontier = [r]
    for d in range(limit + 1):
        if any(x != c19.EMPTY and c19.nullable(x) for x in frontier):
            return d
        nxt = []
        for x in frontier:
            for s_ in c19.first(x):
                nxt.append(c19.deriv(x, s_))
        frontier = nxt[:200]
        if not frontier:
            break
    return limit + 1


def _bound_loops(n: Any) -> Any:
    k = n[0]
    if k in ("seq", "alt"):
        return [k, [_bound_loops(c) for c in n[1]]]
    if k == "star":
        return ["rep", _bound_loops(n[1]), 0, 2]
    if k == "plus":
        return ["rep", _bound_loops(n[1]), 1, 2]
    if k == "opt":
        return ["opt", _bound_loops(n[1])]
    if k == "rep":
        return ["rep", _bound_loops(n[1]), n[2], n[3] if n[3] is not None else max(n[2], 2)]
    return n


def _collect_syms(n: Any, out: dict[Any, Any]) -> None:
    if n[0] == "nt" and len(n) > 2:
        out[(n[2], n[3], n[1])] = True
    elif n[0] in ("seq", "alt"):
        for c in n[1]:
            _collect_syms(c, out)
    elif n[0] in ("opt", "star", "plus", "rep"):
        _collect_syms(n[1], out)


def run_shard(ctx: Any) -> None:
    n = 100 if ctx.tier == "quick" else 2500

    @given(cases())
    def test(case: dict[str, Any]) -> None:
        msgs = check_case(case, ctx)
        if msgs:
            ctx.fail(case, msgs)

    ctx.run_test(test, n)


def replay(case: dict[str, Any]) -> list[str]:
    return check_case(case, None)
