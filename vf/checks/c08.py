"""C08 - Python embedded in a spec keeps its Python meaning (translation validation).

Domain : programs, not inputs.  (a) hypothesis-generated Python modules over the constructs
         the spec language admits (function definitions with every parameter kind, lambdas,
         comprehensions, f-strings, all literal forms, operators and comparison chains,
         control flow, imports, classes, decorators, assignments) rendered by ast.unparse;
         (b) the Python found in the repository's own .fan files (docs, tests, evaluation);
         (c) generated expressions with symbol references in the three embedding contexts:
         `where` constraints, `:=` generators and `{expr}` repetition bounds.
Oracle : the text goes through the real reader (parse_tree + CachedFandangoSpec, nothing is
         executed); the code Fandango would run (code_text / expression strings with the
         symbol placeholders renamed back) is parsed by CPython and compared, as ast.dump
         without positions, with ast.parse of the original text.  Outcome per program:
         equal | rejected with an error | VIOLATION (accepted with a different AST).
         The acceptance rate per construct is reported so that "reject everything" cannot
         pass unnoticed.  For function definitions a behavioural differential backs the AST
         comparison: both versions are called with generated arguments.
"""

from __future__ import annotations

import ast
import glob
import os
import re
from typing import Any

from hypothesis import given, strategies as st

from vf import common, pygen

PROP = "C08"
LEVEL = "translation_validation"
RULE = (
    "program = python module text (generated or harvested) or an expression in a where/:=/{} context; "
    "non-trivial = accepted program with >= 12 AST nodes and >= 1 compound construct; distinct by normalised AST"
)
ASSUMPTIONS = [
    "CPython's ast.parse/ast.unparse define the meaning of the text; only language-neutral normalisation is applied (adjacent string constants and constant f-string parts folded, Constant.kind dropped)",
    "a reader exception of any type counts as 'rejected with an error'",
]
TAIL = "\n<start> ::= 'a'\n"


def shards(tier: str) -> int:
    return 16


def read_code_text(text: str) -> str:
    from fandango.language.parse.parse_tree import parse_tree
    from fandango.language.parse.spec import CachedFandangoSpec

    tree = parse_tree("<verif>", text)
    return CachedFandangoSpec(tree, text, filename="<verif>").code_text


def compare_module(src: str) -> tuple[str, str]:
    """-> (outcome, detail); outcome in equal / rejected / violation / invalid_python"""
    try:
        want = ast.parse(src)
    except SyntaxError:
        return "invalid_python", ""
    try:
        got_text = read_code_text(src + TAIL)
    except Exception as e:
        return "rejected", f"{type(e).__name__}: {str(e)[:120]}"
    try:
        got = ast.parse(got_text)
    except SyntaxError as e:
        return "violation", f"accepted, but the code Fandango would run is not valid Python: {e}"
    a, b = pygen.norm_dump(want), pygen.norm_dump(got)
    if a == b:
        return "equal", ""
    return "violation", f"accepted, but Fandango would run different code:\n--- original ---\n{src}\n--- code_text ---\n{got_text}"


# ---------------------------------------------------------------------------
# (c) expressions with symbol references

def embed_expr(e_text: str, ctx_kind: str) -> str:
    """Replace the names A/B in the expression by <a>/<b> and embed."""
    body = re.sub(r"\bSYM_A\b", "<a>", re.sub(r"\bSYM_B\b", "<b>", e_text))
    if ctx_kind == "where":
        return f"<start> ::= <a> <b>\n<a> ::= 'x'\n<b> ::= 'y'\nwhere {body}\n"
    if ctx_kind == "gen":
        return f"<start> ::= <g>\n<g> ::= <a> <b> := {body}\n<a> ::= 'x' := 'x'\n<b> ::= 'y' := 'y'\n"
    return f"<start> ::= <a> <c>{{{body}}}\n<a> ::= '1'\n<c> ::= 'z'\n"


def constraint_expr(c: Any) -> str:
    name = type(c).__name__
    if name == "ExpressionConstraint":
        s = "(" + c.expression + ")"
    elif name == "ComparisonConstraint":
        s = f"({c._left}) {c._operator.value} ({c._right})"
    elif name in ("ConjunctionConstraint", "DisjunctionConstraint"):
        op = " and " if name.startswith("Conj") else " or "
        return "(" + op.join(constraint_expr(x) for x in c.constraints) + ")"
    else:
        raise NotImplementedError(name)
    for ident, search in c.searches.items():
        spec = search.format_as_spec()
        s = s.replace(ident, {"<a>": "SYM_A", "<b>": "SYM_B"}.get(spec, spec))
    return s


def compare_expr(e_text: str, ctx_kind: str) -> tuple[str, str]:
    from fandango import Fandango

    try:
        want = ast.parse(e_text, mode="eval")
    except SyntaxError:
        return "invalid_python", ""
    text = embed_expr(e_text, ctx_kind)
    try:
        f = Fandango(text, use_stdlib=False, use_cache=False)
    except Exception as e:
        return "rejected", f"{type(e).__name__}: {str(e)[:120]}"
    try:
        if ctx_kind == "where":
            cs = [c for c in f.constraints if type(c).__name__ != "RepetitionBoundsConstraint"]
            got_text = " and ".join(constraint_expr(c) for c in cs) if len(cs) != 1 else constraint_expr(cs[0])
        elif ctx_kind == "gen":
            from fandango.language.symbols import NonTerminal

            gen = f.grammar.generators[NonTerminal("<g>")]
            got_text = gen.call
            for ident, nt in gen.nonterminals.items():
                got_text = got_text.replace(ident, {"<a>": "SYM_A", "<b>": "SYM_B"}[nt.symbol.name()])
        else:
            rbs = [c for c in f.constraints if type(c).__name__ == "RepetitionBoundsConstraint"]
            if not rbs:
                return "skipped", "a constant bound is folded into the grammar, no expression is kept"
            rb = rbs[0]
            got_text, _, searches = rb.expr_data_min
            for ident, s_ in searches.items():
                got_text = got_text.replace(ident, {"<a>": "SYM_A", "<b>": "SYM_B"}[s_.format_as_spec()])
    except NotImplementedError as e:
        return "skipped", str(e)
    try:
        got = ast.parse(got_text, mode="eval")
    except SyntaxError as e:
        return "violation", f"[{ctx_kind}] accepted, but the expression Fandango evaluates is not valid Python: {got_text!r} ({e})"
    a, b = pygen.norm_dump(_flat_bool(want)), pygen.norm_dump(_flat_bool(got))
    if a == b:
        return "equal", ""
    return "violation", f"[{ctx_kind}] accepted, but Fandango evaluates a different expression:\n  original: {e_text}\n  evaluated: {got_text}"


def _flat_bool(tree: Any) -> Any:
    """and/or are associative: (a and (b and c)) == (a and b and c); the reader splits top-level
    and/or of a constraint into separate constraint objects, which are re-joined flat here."""
    class F(ast.NodeTransformer):
        def visit_BoolOp(self, node: ast.BoolOp) -> Any:
            self.generic_visit(node)
            vals: list[Any] = []
            for v in node.values:
                if isinstance(v, ast.BoolOp) and type(v.op) is type(node.op):
                    vals.extend(v.values)
                else:
                    vals.append(v)
            node.values = vals
            return node

    return F().visit(tree)


@st.composite
def sym_exprs(draw: Any) -> str:
    e = draw(pygen.expr(2))
    # make sure symbols occur: replace some names by the symbol markers
    class R(ast.NodeTransformer):
        def visit_Name(self, node: ast.Name) -> Any:
            # symbols are used through str(...): a bare symbol followed by [..] or preceded by * is
            # selector syntax of the spec language, not python
            if isinstance(node.ctx, ast.Load) and node.id in ("a", "f"):
                return ast.Call(func=ast.Name(id="str", ctx=ast.Load()), args=[ast.Name(id="SYM_A", ctx=ast.Load())], keywords=[])
            if isinstance(node.ctx, ast.Load) and node.id in ("b", "g"):
                return ast.Call(func=ast.Name(id="str", ctx=ast.Load()), args=[ast.Name(id="SYM_B", ctx=ast.Load())], keywords=[])
            return node

    e = R().visit(e)
    wrap = draw(st.sampled_from(["int({})", "{}", "len(str({})) + 1", "str(SYM_A) + str({})", "int(SYM_B) + len({})"]))
    mod = ast.Expression(body=e)
    ast.fix_missing_locations(mod)
    return wrap.format(ast.unparse(mod))


# ---------------------------------------------------------------------------
# (b) harvested corpus

def harvest() -> list[str]:
    """Python statements (as module texts) from the repository's .fan files: everything the
    reader classifies as python code, re-split by CPython into top-level statements."""
    out: list[str] = []
    files = sorted(glob.glob(os.path.join(common.REPO, "**", "*.fan"), recursive=True))
    for fn in files:
        try:
            text = open(fn, encoding="utf-8").read()
        except Exception:
            continue
        # keep lines that are neither productions nor constraints/settings/includes (cheap split by CPython)
        lines = []
        for ln in text.split("\n"):
            st_ = ln.lstrip()
            if st_.startswith("<") or st_.startswith("where ") or st_.startswith("minimizing") or st_.startswith("maximizing") \
                    or st_.startswith("include(") or st_.startswith("setting ") or st_.startswith("grammar "):
                lines.append("")
            else:
                lines.append(ln)
        cand = "\n".join(lines)
        try:
            mod = ast.parse(cand)
        except SyntaxError:
            continue
        for node in mod.body:
            seg = ast.get_source_segment(cand, node)
            if seg and len(seg) < 4000:
                out.append(seg)
    return sorted(set(out))


# ---------------------------------------------------------------------------

def check_module(src: str, ctx: Any, origin: str) -> list[str]:
    outcome, detail = compare_module(src)
    if ctx is not None and outcome != "invalid_python":
        tree = ast.parse(src)
        cons = pygen.constructs(tree)
        n_nodes = sum(1 for _ in ast.walk(tree))
        for c in cons & {"FunctionDef", "Lambda", "ListComp", "DictComp", "SetComp", "GeneratorExp", "JoinedStr", "Try",
                         "With", "ClassDef", "ImportFrom", "Import", "For", "While", "If", "Starred", "NamedExpr",
                         "Compare", "Slice", "Dict", "Global", "Nonlocal", "Raise", "Assert", "Delete", "AugAssign", "AnnAssign"}:
            ctx.count(f"{c}:{outcome}")
        compound = bool(cons & {"FunctionDef", "ClassDef", "Try", "With", "For", "While", "If", "ListComp", "DictComp", "Lambda", "JoinedStr"})
        ctx.count(f"outcome={outcome}")
        ctx.count("programs")
        ctx.case(pygen.norm_dump(tree), outcome == "equal" and n_nodes >= 12 and compound, (f"origin={origin}",),
                 sample={"origin": origin, "program": src[:400], "outcome": outcome, "detail": detail[:200]})
    if outcome == "violation":
        return [detail[:1500]]
    return []


def behavioural(src: str) -> list[str]:
    """For a module consisting of one function definition: run both versions."""
    try:
        got_text = read_code_text(src + TAIL)
    except Exception:
        return []
    res = []
    for text in (src, got_text):
        env: dict[str, Any] = {}
        try:
            exec(compile(text, "<m>", "exec"), env)
            fn = [v for k, v in env.items() if callable(v) and not k.startswith("_")][-1]
        except Exception as e:
            res.append(("defn", type(e).__name__))
            continue
        outs = []
        for args, kw in [((), {}), ((1,), {}), ((1, 2), {}), ((1, 2, 3), {}), ((1,), {"q": 5}), ((), {"p": 1, "q": 2}), ((1, 2, 3, 4, 5), {"z": 1})]:
            try:
                outs.append(repr(fn(*args, **kw)))
            except Exception as e:
                outs.append(type(e).__name__)
        res.append(tuple(outs))
    if len(res) == 2 and res[0] != res[1]:
        return [f"function behaves differently when defined in a spec:\n{src}\n original: {res[0]}\n in spec : {res[1]}\n--- code_text ---\n{got_text}"]
    return []


@st.composite
def simple_funcs(draw: Any) -> str:
    a = pygen.arguments(draw, 1, annotate=False)
    names = [x.arg for x in a.posonlyargs + a.args + a.kwonlyargs]
    body = ast.Return(value=ast.Tuple(elts=[ast.Name(id=n, ctx=ast.Load()) for n in names]
                                      + ([ast.Name(id="args", ctx=ast.Load())] if a.vararg else [])
                                      + ([ast.Name(id="kw", ctx=ast.Load())] if a.kwarg else []), ctx=ast.Load()))
    # defaults must be constants so that both versions are runnable
    a.defaults = [ast.Constant(value=10 + i) for i, _ in enumerate(a.defaults)]
    a.kw_defaults = [None if d is None else ast.Constant(value=20 + i) for i, d in enumerate(a.kw_defaults)]
    fn = ast.FunctionDef(name="fn", args=a, body=[body], decorator_list=[], returns=None, lineno=0, type_params=[])
    mod = ast.Module(body=[fn], type_ignores=[])
    ast.fix_missing_locations(mod)
    return ast.unparse(mod)


# ---------------------------------------------------------------------------
# (d) concrete syntax that ast.unparse never emits: string prefixes and escapes in f-strings

@st.composite
def fstring_texts(draw: Any) -> str:
    prefix = draw(st.sampled_from(["f", "F", "rf", "fr", "Rf", "fR", "RF", "f", "rf"]))
    quote = draw(st.sampled_from(["'", '"']))
    other = '"' if quote == "'" else "'"
    lits = ["\\n", "\\t", "\\b", "\\\\", "\\x41", "\\d+", "\\s", "\\101", "\\N{DASH}" if "r" not in prefix.lower() else "\\w",
            " a ", "x=", other, "#", " ", "é", "%s"]
    fields = ["{a}", "{b!r}", "{a:>4}", "{a + b}", "{b!s:5}", "{ a }", "{len(a)}"]
    parts = []
    for _ in range(draw(st.integers(1, 5))):
        parts.append(draw(st.sampled_from(fields)) if draw(st.integers(0, 2)) == 0 else draw(st.sampled_from(lits)))
    text = prefix + quote + "".join(parts) + quote
    target = draw(st.sampled_from(["v = {}", "v = g({}, 1)", "def fn(a, b):\n    return {}", "v = [{} for a in c]"]))
    return target.format(text) + "\n"


# (e) top-level comparison constraints: shape (chains, parenthesised comparisons on either side, negation) and
#     operand kinds (ints, strings, sets, floats incl. NaN, sequences, truth values); the texts are evaluable,
#     so that besides the AST comparison the VERDICTS on every word of the grammar are compared with CPython's

FAMILIES = {
    "int": ["int(SYM_A)", "int(SYM_B)", "5", "int(SYM_A) + 1", "len(str(SYM_B))", "2", "(int(SYM_B) < 5)", "(int(SYM_A) == 2)", "True"],
    "set": ["{int(SYM_A), 9}", "{int(SYM_B), 9}", "{2}", "set()", "frozenset({2, 5})", "{int(SYM_A), int(SYM_B)}", "{2, 9}"],
    "str": ["str(SYM_A)", "'2'", "str(SYM_A) + str(SYM_B)", "str(SYM_B)", "'15'", "''"],
    "float": ["float('nan')", "float(int(SYM_A))", "0.5", "int(SYM_B) / 2", "2.0", "int(SYM_A)"],
    "seq": ["[int(SYM_A)]", "[2, 5]", "[int(SYM_A), int(SYM_B)]", "[int(SYM_B)]", "[]", "(int(SYM_A), int(SYM_B))"],
}
FAMILIES["mixed"] = [x for v in FAMILIES.values() for x in v] + ["None"]
CMP_TEXT = ["==", "!=", "<", "<=", ">", ">=", "in", "not in"]
CMP_GRAMMAR = "<start> ::= <a> <b>\n<a> ::= '1' | '2' | '7'\n<b> ::= '2' | '5' | '9'\n"
CMP_WORDS = [x + y for x in "127" for y in "259"]


@st.composite
def cmp_constraints(draw: Any) -> str:
    pool = FAMILIES[draw(st.sampled_from(["int", "int", "set", "str", "float", "seq", "mixed"]))]
    o = lambda: draw(st.sampled_from(pool))  # noqa: E731
    c = lambda: draw(st.sampled_from(CMP_TEXT))  # noqa: E731
    shape = draw(st.sampled_from(["plain", "plain", "chain", "right_paren", "left_paren", "both_paren", "not_plain",
                                  "not_right_paren", "chain3", "paren_chain", "cond_and", "and_cond", "cond_cmp", "cmp_cond",
                                  "paren_cond_cmp"]))
    b = lambda: draw(st.sampled_from(["and", "or"]))  # noqa: E731
    if shape == "cond_and":
        return f"{o()} if {o()} else {o()} {b()} {o()}"
    if shape == "and_cond":
        return f"{o()} {b()} {o()} if {o()} else {o()}"
    if shape == "cond_cmp":
        return f"{o()} if {o()} else {o()} {c()} {o()}"
    if shape == "cmp_cond":
        return f"{o()} {c()} {o()} if {o()} else {o()}"
    if shape == "paren_cond_cmp":
        return f"({o()} if {o()} else {o()}) {c()} {o()}"
    if shape == "plain":
        return f"{o()} {c()} {o()}"
    if shape == "chain":
        return f"{o()} {c()} {o()} {c()} {o()}"
    if shape == "chain3":
        return f"{o()} {c()} {o()} {c()} {o()} {c()} {o()}"
    if shape == "right_paren":
        return f"{o()} {c()} ({o()} {c()} {o()})"
    if shape == "left_paren":
        return f"({o()} {c()} {o()}) {c()} {o()}"
    if shape == "both_paren":
        return f"({o()} {c()} {o()}) {c()} ({o()} {c()} {o()})"
    if shape == "not_plain":
        return f"not {o()} {c()} {o()}"
    if shape == "not_right_paren":
        return f"not {o()} {c()} ({o()} {c()} {o()})"
    return f"({o()} {c()} {o()} {c()} {o()})"


def cmp_verdicts(e_text: str, ctx: Any = None) -> list[str]:
    """Fandango's verdict for `where e_text` on every word of CMP_GRAMMAR vs. CPython evaluating the same text with
    the symbols bound to the same subtrees (an evaluation that raises counts as not satisfied on both sides)."""
    from fandango import Fandango

    body = re.sub(r"\bSYM_A\b", "<a>", re.sub(r"\bSYM_B\b", "<b>", e_text))
    try:
        f = Fandango(CMP_GRAMMAR + f"where {body}\n", use_stdlib=False, use_cache=False)
    except Exception:
        return []
    code = compile(ast.parse(e_text, mode="eval"), "<constraint>", "eval")
    msgs = []
    seen = set()
    for w in CMP_WORDS:
        t = f.grammar.parse(w)
        if t is None:
            continue
        a, b = t.children[0], t.children[1]
        try:
            want = bool(eval(code, {"SYM_A": a, "SYM_B": b}))
        except Exception:
            want = False
        try:
            got = all(c.check(t) for c in f.constraints)
        except Exception as e:
            msgs.append(f"`where {body}` on {w!r}: check() raised {type(e).__name__}: {e}")
            continue
        seen.add(want)
        if got != want:
            msgs.append(f"`where {body}` on {w!r} (<a>={w[0]}, <b>={w[1]}): Fandango's verdict is {got}, CPython evaluates the same text to {want}")
    if ctx is not None:
        ctx.count("verdict_constraints")
        ctx.count("verdict_constraints_both_outcomes" if len(seen) == 2 else "verdict_constraints_one_outcome")
    return msgs[:3]


def check_case(case: dict[str, Any], ctx: Any = None) -> list[str]:
    kind = case["kind"]
    if kind == "fstring":
        return check_module(case["src"], ctx, "fstring_text")
    if kind == "cmp":
        outcome, detail = compare_expr(case["src"], "where")
        if ctx is not None:
            ctx.count(f"expr[cmp]:{outcome}")
            ctx.count("programs")
            ctx.case({"e": case["src"], "c": "cmp"}, outcome == "equal" and case["src"].count("(") >= 2, ("origin=comparison_constraint",),
                     sample={"origin": "comparison constraint", "program": case["src"][:300], "outcome": outcome, "detail": detail[:200]})
        msgs = [detail[:1500]] if outcome == "violation" else []
        return msgs + cmp_verdicts(case["src"], ctx)
    if kind == "module":
        return check_module(case["src"], ctx, case.get("origin", "generated"))
    if kind == "func":
        msgs = check_module(case["src"], ctx, "generated_function")
        return msgs + behavioural(case["src"])
    outcome, detail = compare_expr(case["src"], case["ctx"])
    if ctx is not None and outcome not in ("invalid_python",):
        ctx.count(f"expr[{case['ctx']}]:{outcome}")
        ctx.count("programs")
        try:
            n_nodes = sum(1 for _ in ast.walk(ast.parse(case["src"], mode="eval")))
        except SyntaxError:
            n_nodes = 0
        ctx.case({"e": case["src"], "c": case["ctx"]}, outcome == "equal" and n_nodes >= 12, (f"origin=expr_{case['ctx']}",),
                 sample={"origin": "expression in " + case["ctx"], "program": case["src"][:300], "outcome": outcome, "detail": detail[:200]})
    return [detail[:1500]] if outcome == "violation" else []


def run_shard(ctx: Any) -> None:
    n_mod = 70 if ctx.tier == "quick" else 4000
    n_expr = 50 if ctx.tier == "quick" else 2500
    n_fn = 25 if ctx.tier == "quick" else 1000

    # (b) harvested corpus, split over the shards
    corpus = harvest()
    ctx.notes["harvested_statements"] = len(corpus) if ctx.shard == 0 else 0
    for i, src in enumerate(corpus):
        if i % ctx.nshards == ctx.shard:
            msgs = check_module(src, ctx, "harvested")
            if msgs:
                ctx.record_failure({"kind": "module", "src": src, "origin": "harvested"}, msgs)

    @given(pygen.programs())
    def test_mod(src: str) -> None:
        case = {"kind": "module", "src": src}
        msgs = check_case(case, ctx)
        if msgs:
            ctx.fail(case, msgs)

    @given(sym_exprs(), st.sampled_from(["where", "gen", "bound"]))
    def test_expr(src: str, kind: str) -> None:
        case = {"kind": "expr", "src": src, "ctx": kind}
        msgs = check_case(case, ctx)
        if msgs:
            ctx.fail(case, msgs)

    @given(simple_funcs())
    def test_fn(src: str) -> None:
        case = {"kind": "func", "src": src}
        msgs = check_case(case, ctx)
        if msgs:
            ctx.fail(case, msgs)

    @given(fstring_texts())
    def test_fstr(src: str) -> None:
        case = {"kind": "fstring", "src": src}
        msgs = check_case(case, ctx)
        if msgs and classify(case, msgs) is None:
            ctx.fail(case, msgs)

    @given(cmp_constraints())
    def test_cmp(src: str) -> None:
        case = {"kind": "cmp", "src": src}
        msgs = check_case(case, ctx)
        if msgs:
            ctx.fail(case, msgs)

    ctx.run_test(test_fstr, 60 if ctx.tier == "quick" else 2000, salt="fstr")
    ctx.run_test(test_cmp, 80 if ctx.tier == "quick" else 2000, salt="cmp")
    ctx.run_test(test_fn, n_fn, salt="fn")
    ctx.run_test(test_mod, n_mod, salt="mod")
    ctx.run_test(test_expr, n_expr, salt="expr")


def evidence_extra(cov: dict[str, Any]) -> dict[str, Any]:
    h = cov.get("class_histogram", {})
    return {"programs": h.get("programs", 0),
            "disagreements_checked": h.get("outcome=equal", 0) + sum(v for k, v in h.items() if k.endswith(":equal") and k.startswith("expr[")),
            "explanation": "programs = python texts pushed through the real reader; disagreements_checked = programs whose executed "
                           "code was compared AST-for-AST with CPython's parse of the original (outcome equal)"}


def classify(case: dict[str, Any], msgs: list[str]) -> Any:
    if "{{" in case.get("src", "") or "}}" in case.get("src", ""):
        return "fstring-doubled-braces"
    return None


def replay(case: dict[str, Any]) -> list[str]:
    return check_case(case, None)
