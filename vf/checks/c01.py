"""C01 - every generated tree is a derivation of the spec's grammar.

Domain : (a) generated specs (text / binary) x every nonterminal as start x node budgets
         {0,1,3,10,40} x seeds through Grammar.fuzz;  (b) evolutionary runs
         (Fandango.fuzz) over generated specs with constraints chosen so that repair,
         mutation and crossover fire (equalities against words of a sub-language,
         string predicates, computed repetitions {int(<len>)}, generators) x settings
         (population, max_nodes, rates, seed, generations).  In (b) EVERY tree handed to
         Evaluator.evaluate_individual is checked (initial population, crossover
         children, mutants, repaired trees), and every emitted solution.
Oracle : independent derivation checker (vf.spec.Sem.derives: each inner node's children
         spell one expansion of its rule, repetition counts within declared bounds, no
         helper symbols) and, by a second route, the independent recogniser applied to
         the serialisation.
"""

from __future__ import annotations

import random
from typing import Any

from hypothesis import given, strategies as st

from vf import spec as S, specgen
from vf.harness import apply_edits, perturb_strategies

PROP = "C01"
LEVEL = "exploration"
RULE = (
    "case = (spec, tree) where the tree comes from Grammar.fuzz (all start symbols, budgets 0..40) or is any tree "
    "evaluated/emitted during a Fandango.fuzz run; non-trivial = tree containing a repetition/recursive expansion "
    "(depth >= 3 or >= 4 nodes) and, for search runs, a run in which mutation+crossover+repair happened; "
    "distinct by hash of (spec, tree shape)"
)
ASSUMPTIONS = [
    "reference derivation checker / recogniser in vf/spec.py (regex leaves judged by re.fullmatch)",
    "computed repetition counts {expr} are constraints (C02); the derivation checker treats them as unbounded",
    "open-ended {n,} is unbounded in the reference (never uses nodes.MAX_REPETITIONS)",
    "an exception from Grammar.fuzz (RecursionError on deep recursion) is counted, not reported: no tree was produced",
]


def shards(tier: str) -> int:
    return 16


DIGITS = ["alt", [["lit", d] for d in "0123456789"]]


@st.composite
def template_specs(draw: Any) -> dict[str, Any]:
    """Hand-shaped families that make the repair operators fire."""
    fam = draw(st.sampled_from(["crep", "eq", "gen", "crep_nested", "parity", "nested_same", "nested_same", "crep_outside", "crep_outside",
                                "nested_eq", "nested_eq"]))
    lo = draw(st.integers(0, 2))
    item = draw(st.sampled_from([
        ["alt", [["lit", "a"], ["seq", [["lit", "b"], ["opt", ["nt", "item"]]]]]],
        ["seq", [["lit", "x"], ["star", ["lit", "y"]]]],
        ["rx", "[ab]{1,2}"],
        ["alt", [["lit", "p"], ["lit", "q"]]],
    ]))
    if fam == "nested_eq":
        # two equality constraints whose targets are NESTED (a symbol and one below it), with alternatives of
        # different shape: one repair call then carries several replacements, one inside the other
        letters = draw(st.sampled_from(["abc", "ab", "abcd"]))
        inner = ["alt", [["lit", c] for c in letters[:2]]]
        x = ["alt", [["lit", letters[0]], ["lit", letters[-1]]]]
        outer = draw(st.sampled_from([
            ["alt", [["seq", [["nt", "inner"], ["nt", "x"]]], ["seq", [["nt", "x"], ["nt", "inner"]]]]],
            ["alt", [["seq", [["nt", "inner"], ["nt", "x"], ["nt", "inner"]]], ["seq", [["nt", "x"], ["nt", "inner"]]]]],
            ["alt", [["nt", "inner"], ["seq", [["nt", "x"], ["nt", "x"], ["nt", "inner"]]]]],
        ]))
        rules = [["start", ["nt", "outer"]], ["outer", outer], ["inner", inner], ["x", x]]
        spec0 = {"rules": rules, "mode": "text", "alphabet": letters}
        sem = S.Sem(spec0)
        wo = sem.enumerate_words("outer", max_len=4, cap=40)
        wi = sem.enumerate_words("inner", max_len=2, cap=10)
        cons = [f"str(<outer>) == {wo[draw(st.integers(0, len(wo) - 1))]!r}", f"str(<inner>) == {wi[draw(st.integers(0, len(wi) - 1))]!r}"]
        if draw(st.booleans()):
            cons.append(f"str(<x>) == {letters[0]!r}")
        return dict(spec0, constraints=cons, family=fam)
    if fam == "nested_same":
        # the same postfix operator nested in itself, under symbols that equality repairs re-parse
        op = draw(st.sampled_from(["opt", "star", "plus"]))
        inner = [op, ["lit", "a"]]
        x = ["seq", [[op, ["alt", [["lit", "c"], ["seq", [["lit", "b"], inner]]]]], ["lit", "!"]]]
        # <y> spells words over the same alphabet, many of them just outside L(<x>)
        y = ["seq", [["star", ["alt", [["lit", "b"], ["lit", "c"]]]], ["opt", ["lit", "a"]], ["lit", "!"]]]
        rules = [["start", ["seq", [["nt", "x"], ["nt", "y"]]]], ["x", x], ["y", y]]
        spec0 = {"rules": rules, "mode": "text", "alphabet": "ab"}
        sem = S.Sem(spec0)
        cons = []
        for nt in ("x", "y"):
            ws = sem.enumerate_words(nt, max_len=6, cap=60)
            w = ws[draw(st.integers(0, len(ws) - 1))]
            if draw(st.integers(0, 2)) == 0:
                # a near-miss outside L(<nt>): a sound parser gives the repair nothing to plant
                w = apply_edits(w, draw(perturb_strategies()), "abc!")
            cons.append(f"str(<{nt}>) == {w!r}")
        if draw(st.booleans()):
            cons = ["str(<x>) == str(<y>)"]
        return dict(spec0, constraints=cons, family=fam)
    if fam == "crep":
        rules = [["start", ["seq", [["nt", "len"], ["lit", ":"], ["crep", ["nt", "item"], "int(<len>)"]]]],
                 ["len", ["nt", "d"]], ["d", ["alt", [["lit", c] for c in draw(st.sampled_from(["123", "0123", "2468", "19"]))]]],
                 ["item", item]]
        cons: list[str] = []
    elif fam == "crep_outside":
        # the repeated symbol also occurs OUTSIDE the computed repetition: in front of it (a structurally equal
        # sibling), behind it, or below another symbol that crossover can fill with a repeated element
        simple = draw(st.sampled_from([["alt", [["lit", "a"], ["lit", "b"]]], ["alt", [["lit", "a"], ["lit", "b"], ["lit", "c"], ["lit", "d"]]], item]))
        shape = draw(st.sampled_from(["before", "after", "trailer", "both"]))
        rep = ["crep", ["nt", "item"], "int(<len>)"]
        if shape == "before":
            body = [["nt", "len"], ["nt", "item"], ["lit", ";"], rep]
        elif shape == "after":
            body = [["nt", "len"], ["lit", ";"], rep, ["lit", "!"], ["nt", "item"]]
        elif shape == "trailer":
            body = [["nt", "len"], ["lit", ";"], rep, ["nt", "trailer"]]
        else:
            body = [["nt", "len"], ["nt", "item"], ["lit", ";"], rep, ["nt", "trailer"]]
        rules = [["start", ["seq", body]], ["len", ["alt", [["lit", c] for c in draw(st.sampled_from(["1234", "0123", "2468", "34"]))]]],
                 ["item", simple], ["trailer", ["seq", [["lit", "!"], ["nt", "item"]]]]]
        if shape in ("before", "after"):
            rules = rules[:-1]
        # constraints that keep the search going, so that crossover moves <item> subtrees between the places
        cons = [draw(st.sampled_from(["str(<start>)[2:5] == 'abc'", "str(<start>).count('a') >= 3", "str(<start>).endswith('b')",
                                      "len(set(str(<start>)[2:])) >= 4", "int(<len>) >= 3", "str(<start>)[2:4] == 'ba'"]))]
    elif fam == "crep_nested":
        rules = [["start", ["rep", ["nt", "rec"], 1, 3]],
                 ["rec", ["seq", [["nt", "len"], ["crep", ["seq", [["nt", "item"], ["opt", ["lit", ","]]]], "int(<len>)"], ["lit", ";"]]]],
                 ["len", ["alt", [["lit", c] for c in "0123"]]], ["item", item]]
        cons = []
    elif fam == "eq":
        rules = [["start", ["seq", [["nt", "x"], ["lit", "="], ["nt", "y"]]]],
                 ["x", ["rep", DIGITS, 1, 3]], ["y", ["rep", DIGITS, 1, draw(st.integers(1, 3))]]]
        cons = [draw(st.sampled_from(["str(<x>) == str(<y>)", "int(<x>) == int(<y>) + 1", "int(<x>) == 2 * int(<y>)",
                                      "str(<y>) == '42'", "int(<x>) % 7 == 3 and int(<y>) > 10"]))]
    elif fam == "parity":
        rules = [["start", ["seq", [["nt", "n"], ["star", ["seq", [["lit", ","], ["nt", "n"]]]]]]],
                 ["n", ["rep", DIGITS, 1, 2]]]
        cons = [draw(st.sampled_from(["forall <k> in <n>: int(<k>) % 2 == 0", "int(<n>) % 3 == 1",
                                      "len(str(<start>)) >= 7", "exists <k> in <n>: int(<k>) == 17"]))]
    else:  # generator
        rules = [["start", ["seq", [["nt", "n"], ["lit", "#"], ["nt", "item"], ["opt", ["nt", "n"]]]]],
                 ["n", ["plus", DIGITS]], ["item", item]]
        cons = [draw(st.sampled_from(["int(<n>) % 2 == 0", "len(str(<start>)) > 4", "str(<item>) != 'p'"]))]
        return {"rules": rules, "mode": "text", "alphabet": "ab", "constraints": cons, "family": fam,
                "code": "import random", "generators": {"n": f"str(random.randint({lo}, 60))"}}
    return {"rules": rules, "mode": "text", "alphabet": "ab", "constraints": cons, "family": fam}


@st.composite
def search_cases(draw: Any) -> dict[str, Any]:
    if draw(st.integers(0, 2)) == 0:
        spec = draw(specgen.grammars({"mode": "text", "regex": draw(st.sampled_from(["guarded", "none"]))}))
        sem = S.Sem(spec)
        names = [r[0] for r in spec["rules"]]
        cons = []
        for _ in range(draw(st.integers(1, 2))):
            kind = draw(st.sampled_from(["eqword", "pred", "len"]))
            nt = draw(st.sampled_from(names))
            if kind == "eqword":
                words = sem.enumerate_words(nt, max_len=4, cap=40)
                if words:
                    w = words[draw(st.integers(0, len(words) - 1))]
                    if draw(st.integers(0, 3)) == 0:
                        w = apply_edits(w, draw(perturb_strategies()), spec["alphabet"])
                    cons.append(f"str(<{nt}>) == {w!r}")
                    continue
            if kind == "pred":
                cons.append(draw(st.sampled_from([
                    "str(<start>).count('a') % 2 == 0", "'b' in str(<start>)", "not str(<start>).startswith('a')"])))
            else:
                cons.append(f"len(str(<start>)) >= {draw(st.integers(1, 5))}")
        spec = dict(spec, constraints=cons, family="specgen")
    else:
        spec = draw(template_specs())
    settings = {
        "population_size": draw(st.sampled_from([2, 4, 8, 15])),
        "max_nodes": draw(st.sampled_from([5, 12, 30, 80])),
        "mutation_rate": draw(st.sampled_from([0.2, 0.6, 1.0])),
        "crossover_rate": draw(st.sampled_from([0.3, 0.8, 1.0])),
        "elitism_rate": draw(st.sampled_from([0.1, 0.5])),
        "random_seed": draw(st.integers(0, 10**6)),
    }
    gens = draw(st.integers(1, 6))
    if spec.get("family") == "crep_outside":
        # crossover followed by the repair of the repetition needs a search that lasts
        settings.update(population_size=draw(st.sampled_from([15, 30])), max_nodes=draw(st.sampled_from([30, 80])),
                        crossover_rate=draw(st.sampled_from([0.8, 1.0])))
        gens = draw(st.integers(8, 20))
    return {"kind": "search", "spec": spec, "settings": settings, "gens": gens, "desired": draw(st.integers(2, 8))}


@st.composite
def plain_cases(draw: Any) -> dict[str, Any]:
    mode = draw(st.sampled_from(["text", "text", "bin"]))
    sw: dict[str, Any] = {"mode": mode, "non_ascii": draw(st.integers(0, 3)) == 0}
    if mode == "text":
        sw["regex"] = draw(st.sampled_from(["guarded", "empty", "none"]))
        sw["empty_literal"] = draw(st.integers(0, 4)) == 0
    spec = draw(specgen.grammars(sw))
    return {"kind": "plain", "spec": spec, "seeds": draw(st.lists(st.integers(0, 10**6), min_size=3, max_size=6)),
            "budgets": draw(st.lists(st.sampled_from([0, 1, 3, 10, 40]), min_size=2, max_size=4))}


def _nodes(t: Any) -> int:
    return 1 + sum(_nodes(c) for c in t.children)


def _depth(t: Any) -> int:
    return 1 + max((_depth(c) for c in t.children), default=0)


def _check_tree(sem: Any, spec: dict[str, Any], tree: Any, start: str, where: str, msgs: list[str]) -> None:
    probs = sem.derives(tree, start)
    if probs:
        msgs.append(f"{where}: not a derivation of <{start}>: {probs[0]} | tree {S.shape(tree)!r}"[:900])
        return
    try:
        units = S.tree_units(tree, spec["mode"])
    except Exception:
        return
    if len(units) <= (10 if spec["mode"] == "text" else 48) and not _has_crep(spec):
        if not sem.recognise(units, start):
            msgs.append(f"{where}: serialisation {units!r} is not a word of L(<{start}>) (reference recogniser)")


def _has_crep(spec: dict[str, Any]) -> bool:
    return "crep" in specgen.uses(spec)


def check_case(case: dict[str, Any], ctx: Any = None) -> list[str]:
    spec = case["spec"]
    sem = S.Sem(spec)
    text = S.render(spec)
    msgs: list[str] = []
    if case["kind"] == "plain":
        f = S.load(spec)
        for name, _ in spec["rules"]:
            for sd in case["seeds"]:
                for b in case["budgets"]:
                    random.seed(sd)
                    try:
                        t = f.grammar.fuzz(f"<{name}>", max_nodes=b)
                    except RecursionError:
                        if ctx is not None:
                            ctx.count("fuzz_recursion_error")
                        continue
                    _check_tree(sem, spec, t, name, f"Grammar.fuzz(<{name}>, max_nodes={b}, seed={sd})", msgs)
                    if ctx is not None:
                        sh = S.shape(t)
                        ctx.case({"s": text, "t": sh}, _nodes(t) >= 4 or _depth(t) >= 3,
                                 ("plain", "mode=" + spec["mode"]),
                                 sample={"spec": text, "start": name, "budget": b, "tree": repr(sh)[:300]})
        return msgs
    # ---- search run ----------------------------------------------------
    from fandango.evolution.evaluation import Evaluator

    f = S.load(spec)
    seen: list[Any] = []
    orig = Evaluator.evaluate_individual

    def wrapped(self: Any, individual: Any) -> Any:
        seen.append((individual, S.shape(individual), sem.derives(individual, "start")))
        return (yield from orig(self, individual))

    emitted: list[Any] = []
    Evaluator.evaluate_individual = wrapped  # type: ignore[method-assign]
    try:
        try:
            sols = f.fuzz(desired_solutions=case["desired"], max_generations=case["gens"],
                          solution_callback=lambda t, i: emitted.append(t), **case["settings"])
        except Exception as e:
            if ctx is not None:
                ctx.count(f"fuzz_raised:{type(e).__name__}")
            sols = []
    finally:
        Evaluator.evaluate_individual = orig  # type: ignore[method-assign]
    strat = f.fandango
    ops = 0 if strat is None else strat.mutations_made + strat.crossovers_made + strat.fixes_made
    bad = 0
    for ind, sh, probs in seen:
        if probs and bad < 3:
            bad += 1
            msgs.append(f"tree evaluated during the search is not a derivation: {probs[0]} | tree {sh!r}"[:900])
    for t in list(sols) + emitted:
        _check_tree(sem, spec, t, "start", "emitted solution", msgs)
    if ctx is not None:
        keys = set()
        for ind, sh, probs in seen:
            k = S.jhash({"s": text, "t": sh}) if hasattr(S, "jhash") else None
            if k is None:
                from vf.common import jhash

                k = jhash({"s": text, "t": sh})
            if k in keys:
                continue
            keys.add(k)
            ctx.case(k, ops > 0 and (len(repr(sh)) > 60), ("search", "family=" + spec.get("family", "?")),
                     sample={"spec": text, "settings": case["settings"], "tree": repr(sh)[:300], "ops": ops})
        ctx.count("search_runs")
        if ops > 0:
            ctx.count("search_runs_with_operators")
        if strat is not None:
            ctx.count("mutations", strat.mutations_made)
            ctx.count("crossovers", strat.crossovers_made)
            ctx.count("fixes", strat.fixes_made)
        ctx.count("emitted_solutions", len(emitted))
    return msgs


def run_shard(ctx: Any) -> None:
    n_plain = 12 if ctx.tier == "quick" else 300
    n_search = 24 if ctx.tier == "quick" else 300

    @given(plain_cases())
    def test_plain(case: dict[str, Any]) -> None:
        msgs = check_case(case, ctx)
        if msgs:
            ctx.fail(case, msgs)

    @given(search_cases())
    def test_search(case: dict[str, Any]) -> None:
        msgs = check_case(case, ctx)
        if msgs:
            ctx.fail(case, msgs)

    ctx.run_test(test_plain, n_plain, salt="plain")
    ctx.run_test(test_search, n_search, salt="search")


def replay(case: dict[str, Any]) -> list[str]:
    return check_case(case, None)
