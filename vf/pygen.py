"""Hypothesis strategies over Python ASTs (expressions and statements) for C08/C14.

Programs are built as `ast` nodes and rendered with ast.unparse(); the reference AST is
ast.parse() of that text.  Only syntactic validity is needed (the text is parsed, not run).
"""

from __future__ import annotations

import ast
import keyword
from typing import Any

from hypothesis import strategies as st

NAMES = ["a", "b", "c", "f", "g", "xs", "ys", "k", "self", "cls"]
ATTRS = ["real", "items", "append", "x", "y"]
STRS = ["", "a", "it's", 'say "hi"', "back\\slash", "new\nline", "tab\t", "é€", "%s", "\x00", "<a>", "where", "::="]

BINOPS = [ast.Add, ast.Sub, ast.Mult, ast.Div, ast.FloorDiv, ast.Mod, ast.Pow, ast.LShift, ast.RShift,
          ast.BitOr, ast.BitXor, ast.BitAnd, ast.MatMult]
UNOPS = [ast.UAdd, ast.USub, ast.Not, ast.Invert]
CMPOPS = [ast.Eq, ast.NotEq, ast.Lt, ast.LtE, ast.Gt, ast.GtE, ast.Is, ast.IsNot, ast.In, ast.NotIn]


def name(ctx: Any = None) -> Any:
    return st.sampled_from(NAMES).map(lambda n: ast.Name(id=n, ctx=ctx or ast.Load()))


def constants() -> Any:
    return st.one_of(
        st.integers(0, 10**6).map(lambda v: ast.Constant(value=v)),
        st.sampled_from([0, 1, 255, 0x10, 0o17, 0b101, 10**20]).map(lambda v: ast.Constant(value=v)),
        st.sampled_from([0.5, 1e10, 1.5e-3, 3.0, float("inf")]).map(lambda v: ast.Constant(value=v)),
        st.sampled_from([2j, 1.5j]).map(lambda v: ast.Constant(value=v)),
        st.sampled_from(STRS).map(lambda v: ast.Constant(value=v)),
        st.sampled_from([b"", b"ab", b"\x00\xff", b"it's"]).map(lambda v: ast.Constant(value=v)),
        st.sampled_from([True, False, None, ...]).map(lambda v: ast.Constant(value=v)),
    )


def arguments(draw: Any, depth: int, annotate: bool = True) -> ast.arguments:
    pool = ["p", "q", "r", "s", "t", "u", "v", "w"]
    n_pos_only = draw(st.integers(0, 1))
    n_args = draw(st.integers(0, 3))
    n_kwonly = draw(st.integers(0, 2))
    names = iter(pool)
    posonly = [ast.arg(arg=next(names)) for _ in range(n_pos_only)]
    args = [ast.arg(arg=next(names)) for _ in range(n_args)]
    n_def = draw(st.integers(0, len(posonly) + len(args)))
    defaults = [draw(expr(depth - 1)) for _ in range(n_def)]
    vararg = ast.arg(arg="args") if draw(st.booleans()) else None
    kwonly = [ast.arg(arg=next(names)) for _ in range(n_kwonly)] if (vararg or draw(st.booleans())) else []
    kw_defaults = [draw(st.one_of(st.none(), expr(depth - 1))) for _ in kwonly]
    kwarg = ast.arg(arg="kw") if draw(st.booleans()) else None
    if annotate and draw(st.integers(0, 3)) == 0:
        for a in posonly + args + kwonly:
            a.annotation = draw(st.sampled_from([ast.Name(id="int", ctx=ast.Load()), ast.Constant(value="str"),
                                                 ast.Subscript(value=ast.Name(id="list", ctx=ast.Load()),
                                                               slice=ast.Name(id="int", ctx=ast.Load()), ctx=ast.Load())]))
    return ast.arguments(posonlyargs=posonly, args=args, vararg=vararg, kwonlyargs=kwonly,
                         kw_defaults=kw_defaults, kwarg=kwarg, defaults=defaults)


def comprehension(draw: Any, depth: int) -> list[ast.comprehension]:
    gens = []
    for _ in range(draw(st.integers(1, 2))):
        target: Any = draw(st.one_of(name(ast.Store()), st.just(ast.Tuple(
            elts=[ast.Name(id="k", ctx=ast.Store()), ast.Name(id="v", ctx=ast.Store())], ctx=ast.Store()))))
        ifs = [draw(expr(depth - 1)) for _ in range(draw(st.integers(0, 2)))]
        gens.append(ast.comprehension(target=target, iter=draw(expr(depth - 1)), ifs=ifs, is_async=0))
    return gens


@st.composite
def expr(draw: Any, depth: int = 3) -> Any:
    if depth <= 0:
        return draw(st.one_of(name(), constants()))
    kind = draw(st.sampled_from([
        "name", "const", "binop", "binop", "unop", "boolop", "compare", "compare", "ifexp", "lambda", "call", "call",
        "attr", "subscript", "slice", "list", "tuple", "set", "dict", "listcomp", "setcomp", "dictcomp", "genexp",
        "fstring", "walrus", "starcall"]))
    e = lambda: draw(expr(depth - 1))  # noqa: E731
    if kind in ("lambda", "walrus") and draw(st.integers(0, 5)) > 0:
        kind = "name"  # both are rejected by the spec reader: keep them rare so that the rest gets accepted
    if kind == "name":
        return draw(name())
    if kind == "const":
        return draw(constants())
    if kind == "binop":
        return ast.BinOp(left=e(), op=draw(st.sampled_from(BINOPS))(), right=e())
    if kind == "unop":
        return ast.UnaryOp(op=draw(st.sampled_from(UNOPS))(), operand=e())
    if kind == "boolop":
        return ast.BoolOp(op=draw(st.sampled_from([ast.And, ast.Or]))(), values=[e() for _ in range(draw(st.integers(2, 3)))])
    if kind == "compare":
        n = draw(st.integers(1, 3))
        return ast.Compare(left=e(), ops=[draw(st.sampled_from(CMPOPS))() for _ in range(n)], comparators=[e() for _ in range(n)])
    if kind == "ifexp":
        return ast.IfExp(test=e(), body=e(), orelse=e())
    if kind == "lambda":
        return ast.Lambda(args=arguments(draw, depth, annotate=False), body=e())
    if kind == "call":
        kws = [ast.keyword(arg=draw(st.sampled_from(["key", "sep", "n"])), value=e()) for _ in range(draw(st.integers(0, 2)))]
        seen = set()
        kws = [k for k in kws if not (k.arg in seen or seen.add(k.arg))]
        return ast.Call(func=draw(st.one_of(name(), st.just(ast.Attribute(value=draw(name()), attr=draw(st.sampled_from(ATTRS)), ctx=ast.Load())))),
                        args=[e() for _ in range(draw(st.integers(0, 2)))], keywords=kws)
    if kind == "starcall":
        return ast.Call(func=draw(name()), args=[e(), ast.Starred(value=e(), ctx=ast.Load())],
                        keywords=[ast.keyword(arg=None, value=e())])
    if kind == "attr":
        return ast.Attribute(value=e(), attr=draw(st.sampled_from(ATTRS)), ctx=ast.Load())
    if kind == "subscript":
        return ast.Subscript(value=e(), slice=draw(st.one_of(expr(depth - 1), st.just(ast.Tuple(elts=[e(), e()], ctx=ast.Load())), st.just(ast.Tuple(elts=[e()], ctx=ast.Load())))), ctx=ast.Load())
    if kind == "slice":
        parts = [draw(st.one_of(st.none(), expr(depth - 1))) for _ in range(3)]
        return ast.Subscript(value=e(), slice=ast.Slice(lower=parts[0], upper=parts[1], step=parts[2]), ctx=ast.Load())
    if kind == "list":
        return ast.List(elts=[e() for _ in range(draw(st.integers(0, 3)))], ctx=ast.Load())
    if kind == "tuple":
        return ast.Tuple(elts=[e() for _ in range(draw(st.integers(0, 3)))], ctx=ast.Load())
    if kind == "set":
        return ast.Set(elts=[e() for _ in range(draw(st.integers(1, 3)))])
    if kind == "dict":
        n = draw(st.integers(0, 3))
        keys: list[Any] = [e() for _ in range(n)]
        if n and draw(st.integers(0, 3)) == 0:
            keys[-1] = None  # ** unpacking
        return ast.Dict(keys=keys, values=[e() for _ in range(n)])
    if kind == "listcomp":
        return ast.ListComp(elt=e(), generators=comprehension(draw, depth))
    if kind == "setcomp":
        return ast.SetComp(elt=e(), generators=comprehension(draw, depth))
    if kind == "dictcomp":
        return ast.DictComp(key=e(), value=e(), generators=comprehension(draw, depth))
    if kind == "genexp":
        return ast.GeneratorExp(elt=e(), generators=comprehension(draw, depth))
    if kind == "walrus":
        return ast.NamedExpr(target=draw(name(ast.Store())), value=e())
    # f-string
    values: list[Any] = []
    for _ in range(draw(st.integers(1, 3))):
        if draw(st.booleans()):
            values.append(ast.Constant(value=draw(st.sampled_from(["x=", " ", "a b ", "it's", "é", " \"q\" "]))))
        else:
            spec = None
            if draw(st.integers(0, 2)) == 0:
                spec = ast.JoinedStr(values=[ast.Constant(value=draw(st.sampled_from([">10", ".2f", "x"])))])
            values.append(ast.FormattedValue(value=draw(st.one_of(name(), expr(depth - 2) if depth > 2 else name())),
                                             conversion=draw(st.sampled_from([-1, -1, 114, 115, 97])), format_spec=spec))
    return ast.JoinedStr(values=values)


def target(draw: Any, depth: int) -> Any:
    kind = draw(st.sampled_from(["name", "name", "attr", "sub", "tuple", "star"]))
    if kind == "name":
        return draw(name(ast.Store()))
    if kind == "attr":
        return ast.Attribute(value=draw(name()), attr=draw(st.sampled_from(ATTRS)), ctx=ast.Store())
    if kind == "sub":
        return ast.Subscript(value=draw(name()), slice=draw(expr(depth - 1)), ctx=ast.Store())
    if kind == "tuple":
        return ast.Tuple(elts=[draw(name(ast.Store())), draw(name(ast.Store()))], ctx=ast.Store())
    return ast.Tuple(elts=[draw(name(ast.Store())), ast.Starred(value=draw(name(ast.Store())), ctx=ast.Store())], ctx=ast.Store())


@st.composite
def stmt(draw: Any, depth: int = 2, in_func: bool = False, in_loop: bool = False) -> Any:
    simple = ["assign", "assign", "augassign", "annassign", "expr", "pass", "assert", "raise", "delete", "global", "import", "importfrom"]
    if in_func:
        simple += ["return", "return", "nonlocal"]
    if in_loop:
        simple += ["break", "continue"]
    compound = ["if", "for", "while", "try", "with", "funcdef", "funcdef", "classdef"] if depth > 0 else []
    kind = draw(st.sampled_from(simple + compound))
    e = lambda d=2: draw(expr(d))  # noqa: E731
    body = lambda **kw: [draw(stmt(depth - 1, **{"in_func": in_func, "in_loop": in_loop, **kw})) for _ in range(draw(st.integers(1, 2)))]  # noqa: E731
    if kind == "assign":
        return ast.Assign(targets=[target(draw, 2) for _ in range(draw(st.integers(1, 2)))], value=e(3), lineno=0)
    if kind == "augassign":
        return ast.AugAssign(target=draw(name(ast.Store())), op=draw(st.sampled_from(BINOPS))(), value=e())
    if kind == "annassign":
        tgt = draw(st.sampled_from(["name", "name", "paren_name", "attr", "subscript"]))
        if tgt in ("name", "paren_name"):
            # `(x): int = 3` is a NON-simple annotated assignment (no entry in __annotations__)
            return ast.AnnAssign(target=draw(name(ast.Store())), annotation=ast.Name(id="int", ctx=ast.Load()),
                                 value=draw(st.one_of(st.none(), expr(2))), simple=1 if tgt == "name" else 0)
        if tgt == "attr":
            target_: Any = ast.Attribute(value=draw(name()), attr=draw(st.sampled_from(ATTRS)), ctx=ast.Store())
        else:
            target_ = ast.Subscript(value=draw(name()), slice=draw(expr(1)), ctx=ast.Store())
        return ast.AnnAssign(target=target_, annotation=ast.Name(id="int", ctx=ast.Load()),
                             value=draw(st.one_of(st.none(), expr(2))), simple=0)
    if kind == "expr":
        return ast.Expr(value=e(3))
    if kind == "pass":
        return ast.Pass()
    if kind == "break":
        return ast.Break()
    if kind == "continue":
        return ast.Continue()
    if kind == "return":
        return ast.Return(value=draw(st.one_of(st.none(), expr(2))))
    if kind == "assert":
        return ast.Assert(test=e(), msg=draw(st.one_of(st.none(), expr(1))))
    if kind == "raise":
        exc = draw(st.one_of(st.none(), expr(1)))
        cause = draw(st.one_of(st.none(), expr(1))) if exc is not None else None
        return ast.Raise(exc=exc, cause=cause)
    if kind == "delete":
        return ast.Delete(targets=[ast.Name(id=draw(st.sampled_from(NAMES)), ctx=ast.Del())])
    if kind in ("global", "nonlocal"):
        cls_ = ast.Global if kind == "global" else ast.Nonlocal
        return cls_(names=[draw(st.sampled_from(NAMES))])
    if kind == "import":
        return ast.Import(names=[ast.alias(name=draw(st.sampled_from(["os", "os.path", "random", "struct"])),
                                           asname=draw(st.sampled_from([None, "m"]))) for _ in range(draw(st.integers(1, 2)))])
    if kind == "importfrom":
        level = draw(st.sampled_from([0, 0, 1, 2]))
        module = draw(st.sampled_from(["os", "os.path", "pkg.sub"] + ([None] if level else [])))
        return ast.ImportFrom(module=module,
                              names=[ast.alias(name=draw(st.sampled_from(["path", "sep", "*"])), asname=None)] if draw(st.booleans())
                              else [ast.alias(name="path", asname="p"), ast.alias(name="sep", asname=None)],
                              level=level)
    if kind == "if":
        node = ast.If(test=e(), body=body(), orelse=[])
        r = draw(st.integers(0, 2))
        if r == 1:
            node.orelse = body()
        elif r == 2:
            node.orelse = [ast.If(test=e(), body=body(), orelse=body() if draw(st.booleans()) else [])]
        return node
    if kind == "for":
        return ast.For(target=target(draw, 2), iter=e(), body=body(in_loop=True), orelse=body() if draw(st.booleans()) else [], lineno=0)
    if kind == "while":
        return ast.While(test=e(), body=body(in_loop=True), orelse=body() if draw(st.booleans()) else [])
    if kind == "try":
        handlers = [ast.ExceptHandler(type=draw(st.sampled_from([None, ast.Name(id="ValueError", ctx=ast.Load()),
                                                                 ast.Tuple(elts=[ast.Name(id="KeyError", ctx=ast.Load()), ast.Name(id="OSError", ctx=ast.Load())], ctx=ast.Load())])),
                                      name=None, body=body()) for _ in range(draw(st.integers(0, 2)))]
        # a bare except must be last; names only with a type
        handlers.sort(key=lambda h: h.type is None)
        if sum(h.type is None for h in handlers) > 1:
            handlers = handlers[:1]
        for h in handlers:
            if h.type is not None and draw(st.booleans()):
                h.name = "e"
        final = body() if (draw(st.booleans()) or not handlers) else []
        orelse = body() if handlers and draw(st.booleans()) else []
        return ast.Try(body=body(), handlers=handlers, orelse=orelse, finalbody=final)
    if kind == "with":
        items = [ast.withitem(context_expr=e(), optional_vars=draw(st.one_of(st.none(), name(ast.Store())))) for _ in range(draw(st.integers(1, 2)))]
        return ast.With(items=items, body=body(), lineno=0)
    if kind == "funcdef":
        decos = [e(1)] if draw(st.integers(0, 3)) == 0 else []
        returns = ast.Name(id="int", ctx=ast.Load()) if draw(st.integers(0, 3)) == 0 else None
        return ast.FunctionDef(name=draw(st.sampled_from(["fn", "helper", "gen_value"])), args=arguments(draw, 2),
                               body=body(in_func=True, in_loop=False), decorator_list=decos, returns=returns, lineno=0, type_params=[])
    # classdef
    return ast.ClassDef(name=draw(st.sampled_from(["Box", "Party"])), bases=[e(1) for _ in range(draw(st.integers(0, 2)))],
                        keywords=[ast.keyword(arg="metaclass", value=e(1))] if draw(st.integers(0, 4)) == 0 else [],
                        body=body(in_func=False, in_loop=False), decorator_list=[], type_params=[])


@st.composite
def programs(draw: Any) -> str:
    stmts = [draw(stmt(2)) for _ in range(draw(st.integers(1, 3)))]
    mod = ast.Module(body=stmts, type_ignores=[])
    ast.fix_missing_locations(mod)
    return ast.unparse(mod)


def norm_dump(tree: Any) -> str:
    """ast.dump without positions, with adjacent string constants / constant JoinedStr folded
    (as CPython's own parser folds them) and Constant.kind dropped."""
    class N(ast.NodeTransformer):
        def visit_Constant(self, node: ast.Constant) -> Any:
            node.kind = None
            return node

        def visit_JoinedStr(self, node: ast.JoinedStr) -> Any:
            self.generic_visit(node)
            vals: list[Any] = []
            for v in node.values:
                if (isinstance(v, ast.Constant) and isinstance(v.value, str) and vals
                        and isinstance(vals[-1], ast.Constant) and isinstance(vals[-1].value, str)):
                    vals[-1] = ast.Constant(value=vals[-1].value + v.value)
                elif isinstance(v, ast.Constant) and v.value == "":
                    continue
                else:
                    vals.append(v)
            node.values = vals
            if all(isinstance(v, ast.Constant) for v in vals):
                return ast.Constant(value="".join(v.value for v in vals))
            return node

    return ast.dump(N().visit(tree), annotate_fields=True, include_attributes=False)


def constructs(tree: Any) -> set[str]:
    return {type(n).__name__ for n in ast.walk(tree)}


def valid_identifier(n: str) -> bool:
    return n.isidentifier() and not keyword.iskeyword(n)
