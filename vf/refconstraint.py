"""Reference interpreter for the generated constraint sub-language (C07, C02, C04).

It works on a plain snapshot of a tree - nested ("<sym>", [children]) / leaf str - and
shares no code with Fandango.  Semantics follow docs/Language.md ("the constraint has to
hold for all values of the given symbols"), docs/Paths.md (., .., [], slices, *, any/all,
exists/forall) and the property statement (no match = nothing to violate, a raising
combination makes the constraint fail).

Formula AST (JSON-able):
  ["expr", template, [sel...]]          python expression, $0,$1.. are the selector values
  ["cmp", op, ltemplate, rtemplate, [sel...]]
  ["and", [F...]]   ["or", [F...]]
  ["forall"|"exists", "<k>", sel, F]    old-style quantifier, bound nonterminal
  ["all"|"any", "v"|"<k>", sel, F]      in-line quantifier over *sel (python variable or nonterminal)
Selectors:
  ["nt", "a"]  ["dot", S, "b"]  ["ddot", S, "b"]  ["idx", S, i]  ["slice", S, i, j]
  ["len", S]   ["star", S]      ["var", "v"] (python variable bound by an in-line quantifier)
"""

from __future__ import annotations

import itertools
import re
from typing import Any


class Node:
    __slots__ = ("sym", "children", "text")

    def __init__(self, sym: str, children: list["Node"], text: str):
        self.sym = sym
        self.children = children
        self.text = text


def snapshot(t: Any) -> Node:
    """Fandango tree -> Node (symbol names, child lists, leaf text only)."""
    if t.symbol.is_terminal:
        v = t.symbol._value._value
        assert isinstance(v, str), "refconstraint handles text trees"
        return Node("", [], v)
    kids = [snapshot(c) for c in t.children]
    return Node(t.symbol.name(), kids, "".join(k.text for k in kids))


class Unspecified(BaseException):
    """The documentation does not say what the operation yields (e.g. int() of an empty tree)."""


class V:
    """Value object standing for a matched subtree in the python part of a constraint."""

    def __init__(self, node: Node):
        self._n = node

    def __str__(self) -> str:
        return self._n.text

    def __int__(self) -> int:
        if self._n.text == "" and not self._n.sym.startswith("<") or self._n.text == "" :
            raise Unspecified("int() of an empty tree")
        return int(self._n.text)

    def __eq__(self, other: Any) -> Any:
        if isinstance(other, V):
            return _shape(self._n) == _shape(other._n)
        if isinstance(other, str):
            return self._n.text == other
        if isinstance(other, int):
            return int(self._n.text) == other
        if isinstance(other, bytes):
            return self._n.text.encode("utf-8") == other
        raise TypeError("cannot compare")

    def __ne__(self, other: Any) -> Any:
        return not self.__eq__(other)

    def __hash__(self) -> int:
        return hash(self._n.text)

    def startswith(self, s: str) -> bool:
        return self._n.text.startswith(s)

    def endswith(self, s: str) -> bool:
        return self._n.text.endswith(s)


def _shape(n: Node) -> Any:
    return (n.sym, n.text) if not n.children else (n.sym, tuple(_shape(c) for c in n.children))


def _all_nodes(n: Node, sym: str, out: list[Node]) -> None:
    for c in n.children:
        if c.sym:
            _all_nodes(c, sym, out)
    if n.sym == sym:
        out.append(n)


class IndexErr(Exception):
    pass


def find(sel: list[Any], root: Node, scope: dict[str, Any]) -> list[Any]:
    """List of matches (Nodes; for len -> [int]; for star -> [list of Nodes])."""
    k = sel[0]
    if k == "nt":
        name = f"<{sel[1]}>"
        if name in scope:
            return [scope[name]]
        out: list[Node] = []
        _all_nodes(root, name, out)
        return out
    if k == "var":
        return [scope[sel[1]]]
    if k == "dot":
        return [c for b in find(sel[1], root, scope) for c in b.children if c.sym == f"<{sel[2]}>"]
    if k == "ddot":
        out = []
        for b in find(sel[1], root, scope):
            _all_nodes(b, f"<{sel[2]}>", out)
        return out
    if k == "idx":
        out = []
        for b in find(sel[1], root, scope):
            try:
                out.append(b.children[sel[2]])
            except IndexError:
                raise IndexErr()
        return out
    if k == "slice":
        out = []
        for b in find(sel[1], root, scope):
            kids = b.children[sel[2]:sel[3]]
            out.append(Node("<slice>", kids, "".join(c.text for c in kids)))
        return out
    if k == "len":
        return [len(find(sel[1], root, scope))]
    if k == "star":
        return [list(find(sel[1], root, scope))]
    raise ValueError(k)


def _wrap(m: Any) -> Any:
    if isinstance(m, Node):
        return V(m)
    if isinstance(m, list):
        return [V(x) for x in m]
    return m


def _py(template: str) -> str:
    return re.sub(r"\$(\d+)", r"_s\1", template)


def evaluate(f: list[Any], root: Node, scope: dict[str, Any] | None = None) -> bool:
    scope = scope or {}
    k = f[0]
    if k in ("expr", "cmp"):
        sels = f[-1]
        try:
            matches = [find(s, root, scope) for s in sels]
        except IndexErr:
            return False  # an index that does not exist for some match: that combination cannot be evaluated
        if k == "expr":
            code = _py(f[1])
        else:
            code = f"({_py(f[2])}) {f[1]} ({_py(f[3])})"
        for combo in itertools.product(*matches):
            env = {f"_s{i}": _wrap(m) for i, m in enumerate(combo)}
            for name, val in scope.items():
                if not name.startswith("<"):
                    env[name] = _wrap(val)
            try:
                if not eval(code, {"__builtins__": __builtins__}, env):
                    return False
            except Exception:
                return False
        return True
    if k == "and":
        return all(evaluate(g, root, scope) for g in f[1])
    if k == "or":
        return any(evaluate(g, root, scope) for g in f[1])
    if k in ("forall", "exists", "all", "any"):
        bound, sel, body = f[1], f[2], f[3]
        try:
            ms = find(sel, root, scope)
        except IndexErr:
            return False
        results = (evaluate(body, root, {**scope, bound: m}) for m in ms)
        return all(results) if k in ("forall", "all") else any(results)
    raise ValueError(k)


class _Raise(Exception):
    pass


def evaluate_joint(f: list[Any], root: Node, scope: dict[str, Any] | None = None) -> bool:
    """Second reading of and/or: the whole boolean combination is ONE python expression,
    quantified over the combinations of all symbols it mentions (python short-circuit and
    exception rules per combination).  Quantifiers open their own scope as before."""
    scope = scope or {}
    k = f[0]
    if k in ("forall", "exists", "all", "any"):
        bound, sel, body = f[1], f[2], f[3]
        try:
            ms = find(sel, root, scope)
        except IndexErr:
            return False
        results = (evaluate_joint(body, root, {**scope, bound: m}) for m in ms)
        return all(results) if k in ("forall", "all") else any(results)
    atoms: list[list[Any]] = []

    def collect(g: list[Any]) -> None:
        if g[0] in ("and", "or"):
            for h in g[1]:
                collect(h)
        elif g[0] in ("expr", "cmp"):
            atoms.append(g)

    collect(f)
    offsets = {}
    all_sels: list[Any] = []
    for a in atoms:
        offsets[id(a)] = len(all_sels)
        all_sels.extend(a[-1])
    try:
        matches = [find(s_, root, scope) for s_ in all_sels]
    except IndexErr:
        return False

    def ev(g: list[Any], combo: tuple[Any, ...]) -> bool:
        kk = g[0]
        if kk in ("expr", "cmp"):
            off = offsets[id(g)]
            env = {f"_s{i}": _wrap(combo[off + i]) for i in range(len(g[-1]))}
            for name, val in scope.items():
                if not name.startswith("<"):
                    env[name] = _wrap(val)
            code = _py(g[1]) if kk == "expr" else f"({_py(g[2])}) {g[1]} ({_py(g[3])})"
            try:
                return bool(eval(code, {"__builtins__": __builtins__}, env))
            except Exception:
                raise _Raise()
        if kk == "and":
            for h in g[1]:
                if not ev(h, combo):
                    return False
            return True
        if kk == "or":
            for h in g[1]:
                if ev(h, combo):
                    return True
            return False
        return evaluate_joint(g, root, scope)  # nested quantifier: opaque sub-formula

    for combo in itertools.product(*matches):
        try:
            if not ev(f, combo):
                return False
        except _Raise:
            return False
    return True


def stats(f: list[Any], root: Node, scope: dict[str, Any] | None = None) -> dict[str, int]:
    """Counts used for the non-triviality rule: combinations, raising combinations, quantified matches."""
    scope = scope or {}
    out = {"combos": 0, "true": 0, "false": 0, "raising": 0, "quant_matches": 0}
    k = f[0]
    if k in ("expr", "cmp"):
        sels = f[-1]
        try:
            matches = [find(s, root, scope) for s in sels]
        except IndexErr:
            out["raising"] += 1
            return out
        code = _py(f[1]) if k == "expr" else f"({_py(f[2])}) {f[1]} ({_py(f[3])})"
        for combo in itertools.product(*matches):
            env = {f"_s{i}": _wrap(m) for i, m in enumerate(combo)}
            for name, val in scope.items():
                if not name.startswith("<"):
                    env[name] = _wrap(val)
            out["combos"] += 1
            try:
                out["true" if eval(code, {"__builtins__": __builtins__}, env) else "false"] += 1
            except Exception:
                out["raising"] += 1
        return out
    if k in ("and", "or"):
        for g in f[1]:
            for kk, v in stats(g, root, scope).items():
                out[kk] += v
        return out
    bound, sel, body = f[1], f[2], f[3]
    try:
        ms = find(sel, root, scope)
    except IndexErr:
        out["raising"] += 1
        return out
    out["quant_matches"] += len(ms)
    for m in ms:
        for kk, v in stats(body, root, {**scope, bound: m}).items():
            out[kk] += v
    return out


# ---------------------------------------------------------------------------
# rendering to Fandango constraint text

def sel_text(sel: list[Any]) -> str:
    k = sel[0]
    if k == "nt":
        return f"<{sel[1]}>"
    if k == "var":
        return sel[1]
    if k == "dot":
        return f"{sel_text(sel[1])}.<{sel[2]}>"
    if k == "ddot":
        return f"{sel_text(sel[1])}..<{sel[2]}>"
    if k == "idx":
        return f"{sel_text(sel[1])}[{sel[2]}]"
    if k == "slice":
        a = "" if sel[2] is None else str(sel[2])
        b = "" if sel[3] is None else str(sel[3])
        return f"{sel_text(sel[1])}[{a}:{b}]"
    if k == "len":
        return f"|{sel_text(sel[1])}|"
    if k == "star":
        return f"*{sel_text(sel[1])}"
    raise ValueError(k)


def _fill(template: str, sels: list[Any]) -> str:
    return re.sub(r"\$(\d+)", lambda m: sel_text(sels[int(m.group(1))]), template)


def text(f: list[Any], top: bool = True) -> str:
    k = f[0]
    if k == "expr":
        return _fill(f[1], f[2])
    if k == "cmp":
        return f"{_fill(f[2], f[4])} {f[1]} {_fill(f[3], f[4])}"
    if k in ("and", "or"):
        parts = [text(g, top=False) for g in f[1]]
        s = f" {k} ".join(parts)
        return s if top else f"({s})"
    if k in ("forall", "exists"):
        s = f"{k} {f[1]} in {sel_text(f[2])}: {text(f[3], top=True)}"
        return s if top else f"({s})"
    if k in ("all", "any"):
        return f"{k}({text(f[3], top=False)} for {f[1]} in *{sel_text(f[2])})"
    raise ValueError(k)
