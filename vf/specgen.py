"""Hypothesis strategies for spec IRs (see vf/spec.py for the IR).

Productive by construction: rule i has a first alternative that mentions only
terminals and rules j > i; further ("recursive") alternatives may mention any
rule but always contain a non-empty literal, so every derivation cycle consumes
input.  Bodies of repetitions are made non-nullable unless the switch
`nullable_under_rep` is on (class of known finding C06/5-B).
"""

from __future__ import annotations

from typing import Any, Optional

from hypothesis import strategies as st

from vf.spec import Sem

NAMES = ["start", "a", "b", "c", "d", "e"]

TEXT_RX = ["[ab]", "[ab]+", "a+", "b?a", "(ab|b)", "[a-c]{1,2}", "[0-9]+", "[01]{2}", "a[ab]?",
           # an optional / repeated tail behind a separator: a complete match can still be extended
           "a+(ba+)?", "[01]+(a[01]+)?", "b(ab)*",
           # shorthand classes (their instances come from exrex's category tables)
           "\\W", "b\\W?", "\\w{1,2}"]
TEXT_RX_EMPTY = ["a*", "[ab]*", "b?", "(ab)?"]
TEXT_RX_NON_ASCII = ["[aé]+", "é+", "é?a", "[é€]{1,2}", "(é|ab)+", "aé?"]
BIN_RX = ["[ab]", "[ab]+", "a+", "[0-9]{1,2}", "\\w+", "a\\s?b", "(?i)[a-c]+", "\\w{1,2}"]

DEFAULT_SW = {
    "mode": "text",            # text | bin
    "regex": "guarded",        # none | guarded | free | empty
    "recursion": True,
    "nullable_under_rep": False,
    "non_ascii": False,
    "open_reps": True,
    "max_rules": 4,
    "depth": 2,
    "empty_literal": False,
}


def sw(**kw: Any) -> dict[str, Any]:
    d = dict(DEFAULT_SW)
    d.update(kw)
    return d


def _literal(s: dict[str, Any], alphabet: str) -> Any:
    if s["mode"] == "bin":
        return st.one_of(
            st.binary(min_size=1, max_size=2).map(lambda b: ["blit", b.hex()]),
            st.sampled_from(["a", "b", "ab", "0", "7", "é", "ü", "€b", "€", "¥¥"] if s["non_ascii"] else ["a", "b", "ab", "0", "7"]).map(lambda t: ["lit", t]),
            st.sampled_from([b"a", b"\x00", b"\xff\x01", b"b"]).map(lambda b: ["blit", b.hex()]),
        )
    alpha = alphabet + ("é€" if s["non_ascii"] else "")
    base = st.text(alphabet=alpha, min_size=1, max_size=2).map(lambda t: ["lit", t])
    if s.get("empty_literal"):
        return st.one_of(base, base, base, st.just(["lit", ""]))
    return base


def _bitfield(draw: Any) -> list[Any]:
    """A byte (or two) worth of bit-level items with fixed widths."""
    total = draw(st.sampled_from([8, 8, 16]))
    items = []
    left = total
    while left > 0:
        w = draw(st.integers(1, min(left, 5)))
        kind = draw(st.sampled_from(["const", "any", "rep"]))
        if kind == "const":
            for _ in range(w):
                items.append(["bit", draw(st.integers(0, 1))])
        elif kind == "any":
            for _ in range(w):
                items.append(["alt", [["bit", 0], ["bit", 1]]])
        else:
            items.append(["rep", ["alt", [["bit", 0], ["bit", 1]]], w, w])
        left -= w
    return items


def _terminal(draw: Any, s: dict[str, Any], alphabet: str) -> Any:
    choices = ["lit", "lit", "lit"]
    if s["regex"] != "none":
        choices.append("rx")
    kind = draw(st.sampled_from(choices))
    if kind == "lit":
        return draw(_literal(s, alphabet))
    if s["mode"] == "bin":
        return ["brx", draw(st.sampled_from(BIN_RX))]
    pool = TEXT_RX + (TEXT_RX_EMPTY if s["regex"] == "empty" else []) + (TEXT_RX_NON_ASCII if s.get("non_ascii") else [])
    return ["rx", draw(st.sampled_from(pool))]


def _expr(draw: Any, s: dict[str, Any], alphabet: str, nts: list[str], depth: int) -> Any:
    opts = ["term", "term"]
    if nts:
        opts += ["nt", "nt"]
    if depth > 0:
        opts += ["seq", "seq", "alt", "star", "plus", "opt", "rep"]
    kind = draw(st.sampled_from(opts))
    if kind == "term":
        return _terminal(draw, s, alphabet)
    if kind == "nt":
        return ["nt", draw(st.sampled_from(nts))]
    if kind == "seq":
        n = draw(st.integers(2, 3))
        return ["seq", [_expr(draw, s, alphabet, nts, depth - 1) for _ in range(n)]]
    if kind == "alt":
        n = draw(st.integers(2, 3))
        return ["alt", [_expr(draw, s, alphabet, nts, depth - 1) for _ in range(n)]]
    body = _expr(draw, s, alphabet, nts, depth - 1)
    if kind in ("star", "plus", "opt"):
        return [kind, body]
    lo = draw(st.integers(0, 2))
    if s["open_reps"] and draw(st.integers(0, 3)) == 0:
        return ["rep", body, lo, None]
    hi = lo + draw(st.integers(0, 2))
    if hi == 0:
        hi = 1
    if lo == 0 and draw(st.booleans()):
        return ["rep", body, lo, hi, "omit_lo"]  # written {,hi}
    return ["rep", body, lo, hi]


@st.composite
def grammars(draw: Any, switches: Optional[dict[str, Any]] = None) -> dict[str, Any]:
    s = sw(**(switches or {}))
    n = draw(st.integers(2, s["max_rules"]))
    names = NAMES[:n]
    alphabet = draw(st.sampled_from(["ab", "abc", "a1", "ab0"]))
    rules = []
    for i, name in enumerate(names):
        later = names[i + 1:]
        base = _expr(draw, s, alphabet, later, s["depth"])
        if i == 0 and later and not _mentions(base, later):
            base = ["seq", [base, ["nt", later[0]]]]
        alts = [base]
        if s["recursion"] and draw(st.integers(0, 2)) == 0:
            # recursive alternative: always contains a non-empty literal
            lit = ["lit", draw(st.sampled_from(list(alphabet)))] if s["mode"] == "text" else ["blit", "2b"]
            tgt = ["nt", draw(st.sampled_from(names))]
            form = draw(st.integers(0, 2))
            if form == 0:
                alts.append(["seq", [lit, tgt]])
            elif form == 1:
                alts.append(["seq", [tgt, lit]])
            else:
                alts.append(["seq", [tgt, lit, ["nt", draw(st.sampled_from(names))]]])
        if s["mode"] == "bin" and draw(st.integers(0, 1)) == 0:
            bf = _bitfield(draw)
            # place a bit field in front of the base alternative, possibly split over two rules
            alts[0] = ["seq", bf + [alts[0]]]
        rules.append([name, alts[0] if len(alts) == 1 else ["alt", alts]])
    spec = {"rules": rules, "mode": s["mode"], "alphabet": alphabet}
    if not s["nullable_under_rep"]:
        _fix_nullable_reps(spec, alphabet, s["mode"])
    return spec


def _mentions(n: Any, names: list[str]) -> bool:
    if n[0] == "nt":
        return n[1] in names
    if n[0] in ("seq", "alt"):
        return any(_mentions(c, names) for c in n[1])
    if n[0] in ("star", "plus", "opt", "rep", "crep"):
        return _mentions(n[1], names)
    return False


def _fix_nullable_reps(spec: dict[str, Any], alphabet: str, mode: str) -> None:
    """Make every repetition body non-nullable (prepend a literal where needed)."""
    guard = ["lit", alphabet[0]] if mode == "text" else ["blit", "23"]
    for _ in range(5):
        sem = Sem(spec)
        changed = False

        def walk(n: Any) -> None:
            nonlocal changed
            if n[0] in ("seq", "alt"):
                for c in n[1]:
                    walk(c)
            elif n[0] in ("star", "plus", "opt", "rep"):
                walk(n[1])
                if n[0] != "opt" and sem.node_nullable(n[1]):
                    n[1] = ["seq", [guard, n[1]]]
                    changed = True

        for _, rhs in spec["rules"]:
            walk(rhs)
        if not changed:
            return


def uses(spec: dict[str, Any]) -> set[str]:
    """Node kinds used (for the class histogram / non-triviality rules)."""
    out: set[str] = set()

    def walk(n: Any) -> None:
        out.add(n[0])
        if n[0] in ("seq", "alt"):
            for c in n[1]:
                walk(c)
        elif n[0] in ("star", "plus", "opt", "rep", "crep"):
            if n[0] == "rep" and n[3] is None:
                out.add("openrep")
            walk(n[1])

    for _, rhs in spec["rules"]:
        walk(rhs)
    names = [r[0] for r in spec["rules"]]
    for i, (name, rhs) in enumerate(spec["rules"]):
        if _mentions(rhs, names[: i + 1]):
            out.add("recursion")
    return out
