"""Harness utilities: deterministic parser fuel, input perturbation, forked arms."""

from __future__ import annotations

import json
import os
from typing import Any, Callable, Optional


class FuelExhausted(BaseException):
    def __init__(self, what: str, states: int, max_children: int):
        super().__init__(what)
        self.what = what
        self.states = states
        self.max_children = max_children


class Fuel:
    """Counts parse states admitted by Column.add (and the longest child list seen);
    raises FuelExhausted beyond the bounds.  Deterministic: no clock involved."""

    _active: Optional["Fuel"] = None
    _patched = False

    def __init__(self, max_states: int = 20000, max_children: int = 400):
        self.max_states = max_states
        self.max_children = max_children
        self.states = 0
        self.children = 0
        self.created = 0
        self.max_created = 60 * max_states + 20000
        self.nodes = 0
        self.max_nodes = 400 * max_states + 200000  # derivation-tree nodes constructed (copies included)

    @classmethod
    def _patch(cls) -> None:
        if cls._patched:
            return
        from fandango.language.grammar.parser.column import Column

        orig = Column.add

        def add(self: Any, state: Any) -> bool:
            r = orig(self, state)
            f = Fuel._active
            if f is not None and r:
                f.states += 1
                n = len(state.children)
                if n > f.children:
                    f.children = n
                if f.states > f.max_states:
                    raise FuelExhausted("states", f.states, f.children)
                if n > f.max_children:
                    raise FuelExhausted("children", f.states, f.children)
            return r

        Column.add = add  # type: ignore[method-assign]

        from fandango.language.grammar.parser.parse_state import ParseState

        orig_init = ParseState.__init__

        def init(self: Any, *a: Any, **kw: Any) -> None:
            orig_init(self, *a, **kw)
            f = Fuel._active
            if f is not None:
                f.created += 1
                if f.created > f.max_created:
                    raise FuelExhausted("states created", f.created, f.children)

        ParseState.__init__ = init  # type: ignore[method-assign]

        from fandango.language.tree import DerivationTree

        orig_tree_init = DerivationTree.__init__

        def tree_init(self: Any, *a: Any, **kw: Any) -> None:
            orig_tree_init(self, *a, **kw)
            f = Fuel._active
            if f is not None:
                f.nodes += 1
                if f.nodes > f.max_nodes:
                    raise FuelExhausted("tree nodes built", f.states, f.children)

        DerivationTree.__init__ = tree_init  # type: ignore[method-assign]
        cls._patched = True

    def __enter__(self) -> "Fuel":
        Fuel._patch()
        self._prev = Fuel._active
        Fuel._active = self
        return self

    def __exit__(self, *a: Any) -> None:
        Fuel._active = self._prev


def perturb_strategies() -> Any:
    """A hypothesis strategy of edit scripts; apply with apply_edits()."""
    from hypothesis import strategies as st

    edit = st.tuples(
        st.sampled_from(["del", "ins", "sub", "swap", "trunc", "dup"]),
        st.integers(0, 40),
        st.integers(0, 255),
    )
    return st.lists(edit, min_size=1, max_size=2)


def apply_edits(word: Any, edits: list[Any], alphabet: str) -> Any:
    is_bytes = isinstance(word, (bytes, bytearray))
    seq = list(word)
    for op, pos, val in edits:
        n = len(seq)
        sym: Any = (val if is_bytes else alphabet[val % len(alphabet)]) if alphabet or is_bytes else "x"
        if op == "ins":
            seq.insert(pos % (n + 1), sym)
        elif n == 0:
            continue
        elif op == "del":
            del seq[pos % n]
        elif op == "sub":
            seq[pos % n] = sym
        elif op == "swap" and n >= 2:
            i = pos % (n - 1)
            seq[i], seq[i + 1] = seq[i + 1], seq[i]
        elif op == "trunc":
            seq = seq[: pos % n]
        elif op == "dup":
            i = pos % n
            seq.insert(i, seq[i])
    return bytes(seq) if is_bytes else "".join(seq)


def fork_arm(fn: Callable[[], Any], timeout: float = 120.0) -> Any:
    """Run fn() in a forked child (pristine copy of the parent's module state) and
    return its JSON-able result; raises RuntimeError if the child fails."""
    import multiprocessing

    ctx = multiprocessing.get_context("fork")
    q = ctx.SimpleQueue()

    def child() -> None:
        try:
            q.put(("ok", json.dumps(fn(), default=repr)))
        except BaseException as e:  # noqa
            import traceback

            q.put(("err", traceback.format_exc()))
        os._exit(0)

    p = ctx.Process(target=child)
    p.start()
    p.join(timeout)
    if p.is_alive():
        p.terminate()
        raise TimeoutError("arm did not finish")
    if q.empty():
        raise RuntimeError("arm died")
    kind, payload = q.get()
    if kind != "ok":
        raise RuntimeError(payload)
    return json.loads(payload)
