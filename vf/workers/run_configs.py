"""Fresh-process worker for C17/C18: reads a JSON job from stdin, prints a JSON report.

job = {"repo_src": ..., "pad": int, "delay": float, "configs": [{"spec_text":..., "settings":{...},
       "gens":..., "desired":..., "words": [...]}, ...], "activity": optional list of configs run BEFORE (C18)}
report = per config: ordered solutions (text + tree shape) and ordered parse forests of the words.
"""
import json
import os
import sys
import time


def shape(t):
    if t.symbol.is_terminal:
        v = t.symbol._value
        return ["T", repr(v._value), list(v._trailing_bits)]
    return [t.symbol.name(), [shape(c) for c in t.children]]


def construct(cfg):
    from fandango import Fandango

    return Fandango(cfg["spec_text"], use_stdlib=bool(cfg.get("use_stdlib", False)), use_cache=False)


def run_script(script):
    """C18: interleaved use of several instances.  ops: ["new", name, cfg] / ["fuzz", name] / ["parse", name] /
    ["start", name, k] (init_population + generate_solutions, take k, generator stays suspended) / ["resume", name, m]"""
    import itertools

    objs, cfgs, gens, report = {}, {}, {}, {}
    for op in script:
        kind, name = op[0], op[1]
        rep = report.setdefault(name, {})
        try:
            if kind == "new":
                cfgs[name] = op[2]
                objs[name] = construct(op[2])
            elif name not in objs:
                rep.setdefault("skipped", []).append(kind)
            elif kind == "fuzz":
                r = run_config(cfgs[name], objs[name], do_parse=False)
                r.pop("parses", None)
                rep.update(r)
            elif kind == "parse":
                rep["parses"] = run_config(dict(cfgs[name], desired=0), objs[name])["parses"]
            elif kind == "start":
                objs[name].init_population(**cfgs[name]["settings"])
                gens[name] = objs[name].generate_solutions(max_generations=cfgs[name]["gens"])
                rep["stream"] = [[str(t), shape(t)] for t in itertools.islice(gens[name], op[2])]
            elif kind == "resume":
                rep["stream"] = rep.get("stream", []) + [[str(t), shape(t)] for t in itertools.islice(gens[name], op[2])]
        except Exception as e:
            rep[f"{kind}_error"] = f"{type(e).__name__}: {str(e)[:200]}"
    return report


def run_config(cfg, f=None, do_parse=True):
    out = {"solutions": [], "parses": []}
    if f is None:
        try:
            f = construct(cfg)
        except Exception as e:
            return {"error": f"{type(e).__name__}: {e}"}
    if cfg.get("desired"):
        try:
            sols = f.fuzz(desired_solutions=cfg["desired"], max_generations=cfg["gens"], **cfg["settings"])
            for t in sols:
                try:
                    s = str(t)
                except Exception as e:
                    s = f"<{type(e).__name__}>"
                out["solutions"].append([s, shape(t)])
        except Exception as e:
            out["fuzz_error"] = f"{type(e).__name__}: {str(e)[:200]}"
    for w in cfg.get("words", []) if do_parse else []:
        try:
            trees = []
            for i, t in enumerate(f.parse(w)):
                trees.append(shape(t))
                if i >= 10:
                    break
            out["parses"].append(trees)
        except Exception as e:
            out["parses"].append(f"{type(e).__name__}")
    return out


def main():
    job = json.load(sys.stdin)
    sys.path.insert(0, job["repo_src"])
    os.environ.setdefault("FANDANGO_DISABLE_UPDATE_CHECK", "1")
    os.environ.setdefault("FANDANGO_DISABLE_VISUALIZATION", "1")
    os.environ.pop("FANDANGO_RAISE_ALL_EXCEPTIONS", None)
    # things that must not matter: start time, address layout, working directory
    if job.get("delay"):
        time.sleep(job["delay"])
    pad = [object() for _ in range(job.get("pad", 0))]
    pad2 = [bytearray(k % 97 + 1) for k in range(job.get("pad", 0) // 3)]
    if job.get("cwd"):
        os.chdir(job["cwd"])
    import logging

    import fandango  # noqa
    from fandango.logger import LOGGER

    LOGGER.setLevel(logging.CRITICAL)
    devnull = open(os.devnull, "w")
    real_stdout = sys.stdout
    sys.stdout = devnull
    sys.stderr = devnull
    if "script" in job:
        report = run_script(job["script"])
    else:
        for cfg in job.get("activity", []):
            run_config(cfg)
        report = [run_config(cfg) for cfg in job["configs"]]
    sys.stdout = real_stdout
    json.dump({"report": report, "pid": os.getpid(), "n_pad": len(pad) + len(pad2)}, sys.stdout)


if __name__ == "__main__":
    main()
