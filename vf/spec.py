"""Spec IR owned by the checks, renderer to .fan text, and reference semantics
(derivation checker, recogniser, word enumerator) that share no code with Fandango.

IR (JSON-able lists):
    ["lit", "abc"]      text literal          ["blit", "6162"]  bytes literal (hex)
    ["bit", 0|1]        single bit            ["rx", "[ab]+"]   text regex
    ["brx", "[ab]+"]    bytes regex           ["nt", "a"]       nonterminal <a>
    ["seq", [..]]  ["alt", [..]]  ["star", x]  ["plus", x]  ["opt", x]
    ["rep", x, lo, hi]  (hi None = open ended)
A spec is {"rules": [[name, rhs], ...], "mode": "text"|"bin", ...extras used by checks}.

Units: in text mode a word is a str and one unit is one character; in bin mode a
word is a str over '0'/'1' (one unit per bit) and byte-level terminals expand to
eight units per byte.  Binary specs are generated with fixed-width bit fields, so
byte-level terminals are byte aligned by construction.
"""

from __future__ import annotations

import re
from functools import lru_cache
from typing import Any, Iterable, Optional

Node = list  # IR node


# ---------------------------------------------------------------------------
# rendering

def render_node(n: Node, top: bool = False) -> str:
    k = n[0]
    if k == "lit":
        return _pystr(n[1])
    if k == "blit":
        return repr(bytes.fromhex(n[1]))
    if k == "bit":
        return str(n[1])
    if k == "rx":
        return _rx(n[1], "r")
    if k == "brx":
        return _rx(n[1], "rb")
    if k == "nt":
        return f"<{n[1]}>"
    if k == "seq":
        s = " ".join(render_node(c) for c in n[1])
        return s if top else f"({s})"
    if k == "alt":
        s = " | ".join(render_node(c, top=False) if c[0] != "seq" else render_node(c, top=True) for c in n[1])
        return s if top else f"({s})"
    if k in ("star", "plus", "opt"):
        return _atom(n[1]) + {"star": "*", "plus": "+", "opt": "?"}[k]
    if k == "crep":
        return _atom(n[1]) + "{" + n[2] + "}"
    if k == "rep":
        lo, hi = n[2], n[3]
        if hi is None:
            b = f"{{{lo},}}"
        elif lo == 0 and len(n) > 4 and n[4] == "omit_lo":
            b = f"{{,{hi}}}"
        elif lo == hi:
            b = f"{{{lo}}}"
        else:
            b = f"{{{lo},{hi}}}"
        return _atom(n[1]) + b
    raise ValueError(k)


def _atom(n: Node) -> str:
    if n[0] in ("lit", "blit", "bit", "rx", "brx", "nt"):
        return render_node(n)
    if n[0] in ("seq", "alt"):
        return render_node(n)  # parenthesised
    return "(" + render_node(n) + ")"


def _pystr(s: str) -> str:
    out = ['"']
    for ch in s:
        o = ord(ch)
        if ch == '"':
            out.append('\\"')
        elif ch == "\\":
            out.append("\\\\")
        elif o < 32 or o == 127:
            out.append(f"\\x{o:02x}")
        else:
            out.append(ch)
    out.append('"')
    return "".join(out)


def _rx(p: str, prefix: str) -> str:
    assert '"' not in p and "\n" not in p
    return f'{prefix}"{p}"'


def render(spec: dict[str, Any]) -> str:
    lines = []
    gens = spec.get("generators", {})
    for name, rhs in spec["rules"]:
        line = f"<{name}> ::= {render_node(rhs, top=True)}"
        if name in gens:
            line += f" := {gens[name]}"
        lines.append(line)
    text = "\n".join(lines) + "\n"
    if spec.get("code"):
        text = spec["code"].rstrip("\n") + "\n\n" + text
    for c in spec.get("constraints", []):
        text += f"where {c}\n"
    return text


def load(spec: dict[str, Any], **kw: Any) -> Any:
    from fandango import Fandango

    kw.setdefault("use_stdlib", False)
    kw.setdefault("use_cache", False)
    return Fandango(render(spec), **kw)


# ---------------------------------------------------------------------------
# units

def word_to_input(units: str, mode: str) -> Any:
    if mode == "text":
        return units
    assert len(units) % 8 == 0, units
    return int(units, 2).to_bytes(len(units) // 8, "big") if units else b""


def input_to_units(word: Any, mode: str) -> str:
    if mode == "text":
        assert isinstance(word, str)
        return word
    if isinstance(word, str):
        word = word.encode("utf-8")
    return "".join(f"{b:08b}" for b in word)


def _bits(b: bytes) -> str:
    return "".join(f"{x:08b}" for x in b)


def term_units(n: Node, mode: str) -> str:
    """Unit string of a fixed terminal."""
    if n[0] == "lit":
        return n[1] if mode == "text" else _bits(n[1].encode("utf-8"))
    if n[0] == "blit":
        return _bits(bytes.fromhex(n[1]))
    if n[0] == "bit":
        return str(n[1])
    raise ValueError(n)


_RX_COMPILED: dict[Any, Any] = {}


def _compiled(p: str, binary: bool = False) -> Any:
    """A bytes regex (rb"...") is a BYTES pattern: \\w, \\s, \\b and (?i) are ASCII-only there."""
    key = (p, binary)
    if key not in _RX_COMPILED:
        _RX_COMPILED[key] = re.compile(p.encode("latin-1")) if binary else re.compile(p)
    return _RX_COMPILED[key]


def rx_alphabet_of(p: str) -> str:
    """Characters a word of the regex can contain, read off the pattern text: literal letters/digits/non-ASCII
    characters, and the first three characters of every range (x-y)."""
    import re as _re

    out: list[str] = []
    for lo, hi in _re.findall(r"(\w)-(\w)", p):
        for c in range(ord(lo), min(ord(hi), ord(lo) + 2) + 1):
            out.append(chr(c))
    body = _re.sub(r"\{[0-9,]*\}", "", p)
    for ch in body:
        if ch.isalnum() or ord(ch) > 127:
            out.append(ch)
    return "".join(dict.fromkeys(out))[:5]


def rx_fullmatch(p: str, s: str, binary: bool = False) -> bool:
    """binary: p is a bytes regex, s holds the bytes as Latin-1 characters."""
    if binary:
        return _compiled(p, True).fullmatch(s.encode("latin-1")) is not None
    return _compiled(p).fullmatch(s) is not None


def rx_greedy_len(p: str, s: str, binary: bool = False) -> Optional[int]:
    m = _compiled(p, True).match(s.encode("latin-1")) if binary else _compiled(p).match(s)
    return None if m is None else m.end()


# ---------------------------------------------------------------------------
# static analysis

class Sem:
    """Reference semantics of one spec."""

    def __init__(self, spec: dict[str, Any]):
        self.spec = spec
        self.mode = spec.get("mode", "text")
        self.rules: dict[str, Node] = {name: rhs for name, rhs in spec["rules"]}
        self._nullable = self._compute_nullable()

    # -- nullable --------------------------------------------------------
    def _compute_nullable(self) -> dict[str, bool]:
        nl = {k: False for k in self.rules}
        changed = True
        while changed:
            changed = False
            for k, rhs in self.rules.items():
                v = self.node_nullable(rhs, nl)
                if v and not nl[k]:
                    nl[k] = True
                    changed = True
        return nl

    def node_nullable(self, n: Node, nl: Optional[dict[str, bool]] = None) -> bool:
        nl = self._nullable if nl is None else nl
        k = n[0]
        if k == "lit":
            return n[1] == ""
        if k == "blit":
            return n[1] == ""
        if k == "bit":
            return False
        if k in ("rx", "brx"):
            return rx_fullmatch(n[1], "")
        if k == "nt":
            return nl.get(n[1], False)
        if k == "seq":
            return all(self.node_nullable(c, nl) for c in n[1])
        if k == "alt":
            return any(self.node_nullable(c, nl) for c in n[1])
        if k in ("star", "opt", "crep"):
            return True
        if k == "plus":
            return self.node_nullable(n[1], nl)
        if k == "rep":
            return n[2] == 0 or self.node_nullable(n[1], nl)
        raise ValueError(k)

    # -- recogniser ---------------------------------------------------------
    def recognise(self, units: str, start: str = "start", greedy: bool = False) -> bool:
        """greedy=True: only derivations in which every regex leaf takes exactly the
        match re.match() finds on the remaining input (what a greedy scanner explores)."""
        return len(units) in self.ends_table(units, greedy)[(start, 0)]

    def ends_table(self, units: str, greedy: bool = False) -> dict[tuple[str, int], frozenset[int]]:
        self._greedy = greedy
        n = len(units)
        chart: dict[tuple[str, int], frozenset[int]] = {
            (k, i): frozenset() for k in self.rules for i in range(n + 1)
        }
        changed = True
        while changed:
            changed = False
            for k, rhs in self.rules.items():
                for i in range(n, -1, -1):
                    new = frozenset(self._ends(rhs, i, units, chart))
                    if new != chart[(k, i)]:
                        chart[(k, i)] = chart[(k, i)] | new
                        changed = True
        return chart

    def _ends(self, node: Node, i: int, u: str, chart: dict[tuple[str, int], frozenset[int]]) -> set[int]:
        k = node[0]
        n = len(u)
        if k in ("lit", "blit", "bit"):
            t = term_units(node, self.mode)
            return {i + len(t)} if u.startswith(t, i) else set()
        if k in ("rx", "brx"):
            out = set()
            if getattr(self, "_greedy", False):
                if self.mode == "text":
                    g = rx_greedy_len(node[1], u[i:])
                    return set() if g is None else {i + g}
                if i % 8:
                    return set()
                seg = u[i:]
                seg = seg[: len(seg) - len(seg) % 8]
                sb = bytes(int(seg[x:x + 8], 2) for x in range(0, len(seg), 8)).decode("latin-1")
                g = rx_greedy_len(node[1], sb, True)
                return set() if g is None else {i + 8 * g}
            if self.mode == "text":
                for j in range(i, n + 1):
                    if rx_fullmatch(node[1], u[i:j]):
                        out.add(j)
            else:
                for j in range(i, n + 1, 8):
                    seg = u[i:j]
                    s = bytes(int(seg[x:x + 8], 2) for x in range(0, len(seg), 8)).decode("latin-1")
                    if rx_fullmatch(node[1], s, True):
                        out.add(j)
            return out
        if k == "nt":
            return set(chart[(node[1], i)])
        if k == "seq":
            cur = {i}
            for c in node[1]:
                nxt: set[int] = set()
                for p in cur:
                    nxt |= self._ends(c, p, u, chart)
                cur = nxt
                if not cur:
                    break
            return cur
        if k == "alt":
            out = set()
            for c in node[1]:
                out |= self._ends(c, i, u, chart)
            return out
        if k == "opt":
            return {i} | self._ends(node[1], i, u, chart)
        if k in ("star", "plus", "rep", "crep"):
            lo, hi = {"star": (0, None), "plus": (1, None), "crep": (0, None)}.get(k, (node[2] if k == "rep" else 0, node[3] if k == "rep" else None))
            cur = {i}
            cnt = 0
            while cnt < lo:
                nxt = set()
                for p in cur:
                    nxt |= self._ends(node[1], p, u, chart)
                cur = nxt
                cnt += 1
                if not cur:
                    return set()
            out = set(cur)
            if hi is None:
                frontier = set(cur)
                while frontier:
                    nxt = set()
                    for p in frontier:
                        nxt |= self._ends(node[1], p, u, chart)
                    frontier = nxt - out
                    out |= nxt
            else:
                while cnt < hi and cur:
                    nxt = set()
                    for p in cur:
                        nxt |= self._ends(node[1], p, u, chart)
                    cur = nxt
                    out |= nxt
                    cnt += 1
            return out
        raise ValueError(k)

    # -- derivation counting ------------------------------------------------
    def derivation_counts(self, units: str, max_iter: int = 60, greedy: bool = False) -> Any:
        """(chart, W, converged): chart[(nt, i)] = {j: number of distinct derivation trees of
        units[i:j] from nt}; W = total number of (IR node or sequence prefix, i, j, tree)
        partial derivations - an upper bound (up to a constant) for the work of any chart
        parser that keeps one item per distinct derivation.  Only meaningful for finitely
        ambiguous grammars; converged=False signals that counts kept growing."""
        n = len(units)
        chart: dict[tuple[str, int], dict[int, int]] = {(k, i): {} for k in self.rules for i in range(n + 1)}
        self._greedy = greedy
        converged = False
        for _ in range(max_iter):
            changed = False
            for k, rhs in self.rules.items():
                for i in range(n, -1, -1):
                    new = self._cnt(rhs, i, units, chart, None)
                    if new != chart[(k, i)]:
                        chart[(k, i)] = new
                        changed = True
            if not changed:
                converged = True
                break
        acc = [0]
        for k, rhs in self.rules.items():
            for i in range(n + 1):
                self._cnt(rhs, i, units, chart, acc)
        return chart, acc[0], converged

    def _cnt(self, node: Node, i: int, u: str, chart: Any, acc: Any) -> dict[int, int]:
        k = node[0]
        n = len(u)
        out: dict[int, int] = {}
        if k in ("lit", "blit", "bit", "rx", "brx"):
            for j in self._ends(node, i, u, {}):
                out[j] = 1
        elif k == "nt":
            out = dict(chart[(node[1], i)])
        elif k == "seq":
            cur = {i: 1}
            for c in node[1]:
                nxt: dict[int, int] = {}
                for p, cp in cur.items():
                    for j, cj in self._cnt(c, p, u, chart, acc).items():
                        nxt[j] = nxt.get(j, 0) + cp * cj
                cur = nxt
                if acc is not None:
                    acc[0] += sum(cur.values())
                if not cur:
                    break
            out = cur
        elif k == "alt":
            for c in node[1]:
                for j, cj in self._cnt(c, i, u, chart, acc).items():
                    out[j] = out.get(j, 0) + cj
        else:
            lo, hi = {"star": (0, None), "plus": (1, None), "opt": (0, 1), "crep": (0, None)}.get(k, (node[2] if k == "rep" else 0, node[3] if k == "rep" else None))
            cur = {i: 1}
            cnt = 0
            limit = hi if hi is not None else lo + n + 1
            if lo == 0:
                out = {i: 1}
            while cnt < limit and cur:
                nxt = {}
                for p, cp in cur.items():
                    for j, cj in self._cnt(node[1], p, u, chart, acc).items():
                        nxt[j] = nxt.get(j, 0) + cp * cj
                cur = nxt
                cnt += 1
                if acc is not None:
                    acc[0] += sum(cur.values())
                if cnt >= lo:
                    for j, cj in cur.items():
                        out[j] = out.get(j, 0) + cj
                if hi is None and cnt > lo + n + 1:
                    break
        if acc is not None:
            acc[0] += sum(out.values())
        return out

    # -- enumerator ------------------------------------------------------------
    def enumerate_words(self, start: str = "start", max_len: int = 6, cap: int = 400,
                        rx_alphabet: str = "ab") -> list[str]:
        """Words of L(start) with at most max_len units (a subset if cap is hit;
        every returned word IS in the language)."""
        lang: dict[str, set[str]] = {k: set() for k in self.rules}
        for _ in range(40):
            changed = False
            for k, rhs in self.rules.items():
                new = self._lang(rhs, lang, max_len, cap, rx_alphabet)
                if not new <= lang[k]:
                    if len(lang[k]) < cap:
                        lang[k] |= set(sorted(new, key=lambda w: (len(w), w))[:cap])
                        changed = True
            if not changed:
                break
        return sorted(lang[start], key=lambda w: (len(w), w))

    def _lang(self, node: Node, lang: dict[str, set[str]], L: int, cap: int, alpha: str) -> set[str]:
        k = node[0]
        if k in ("lit", "blit", "bit"):
            t = term_units(node, self.mode)
            return {t} if len(t) <= L else set()
        if k in ("rx", "brx"):
            return set(self._rx_words(node[1], L, alpha))
        if k == "nt":
            return lang.get(node[1], set())
        if k == "seq":
            cur = {""}
            for c in node[1]:
                cw = self._lang(c, lang, L, cap, alpha)
                cur = _cat(cur, cw, L, cap)
                if not cur:
                    break
            return cur
        if k == "alt":
            out: set[str] = set()
            for c in node[1]:
                out |= self._lang(c, lang, L, cap, alpha)
            return out
        if k == "opt":
            return {""} | self._lang(node[1], lang, L, cap, alpha)
        if k in ("star", "plus", "rep", "crep"):
            lo, hi = {"star": (0, None), "plus": (1, None), "crep": (0, None)}.get(k, (node[2] if k == "rep" else 0, node[3] if k == "rep" else None))
            body = self._lang(node[1], lang, L, cap, alpha)
            cur = {""}
            for _ in range(lo):
                cur = _cat(cur, body, L, cap)
            out = set(cur)
            cnt = lo
            while (hi is None or cnt < hi) and cur and cnt < lo + L + 1:
                cur = _cat(cur, body, L, cap)
                if cur <= out:
                    break
                out |= cur
                cnt += 1
                if len(out) > cap:
                    break
            return out
        raise ValueError(k)

    def _rx_words(self, p: str, L: int, alpha: str) -> list[str]:
        alpha = "".join(sorted(set(alpha) | set(rx_alphabet_of(p))))
        key = (p, L, alpha, self.mode)
        if key in _RX_CACHE:
            return _RX_CACHE[key]
        out = []
        import itertools

        maxc = L if self.mode == "text" else min(L // 8, 2)
        for n in range(0, min(maxc, 4) + 1):
            for tup in itertools.product(alpha, repeat=n):
                s = "".join(tup)
                if rx_fullmatch(p, s, self.mode != "text"):
                    out.append(s if self.mode == "text" else _bits(s.encode("latin-1")))
        _RX_CACHE[key] = out
        return out

    # -- derivation checker ---------------------------------------------------------
    def derives(self, tree: Any, start: Optional[str] = None) -> list[str]:
        """Return a list of problems (empty = the tree is a derivation)."""
        problems: list[str] = []
        if start is not None:
            nm = _sym_name(tree)
            if nm != f"<{start}>":
                problems.append(f"root symbol {nm} is not <{start}>")
        self._check_node(tree, problems, ())
        return problems

    def _check_node(self, t: Any, problems: list[str], path: tuple[int, ...]) -> None:
        if t.symbol.is_terminal:
            return
        name = _sym_name(t)
        if name.startswith("<__") or name.startswith("<*"):
            problems.append(f"helper symbol {name} in tree at {path}")
            return
        rule = self.rules.get(name[1:-1])
        if rule is None:
            problems.append(f"unknown symbol {name} at {path}")
            return
        kids = list(t.children)
        if len(kids) not in self._match(rule, kids, 0):
            problems.append(
                f"children of {name} at {path} do not spell an expansion of its rule: "
                f"[{', '.join(_child_desc(c) for c in kids)}] vs {render_node(rule, top=True)}"
            )
        for i, c in enumerate(kids):
            self._check_node(c, problems, path + (i,))

    def _match(self, node: Node, kids: list[Any], i: int) -> set[int]:
        k = node[0]
        if k in ("lit", "blit", "bit", "rx", "brx"):
            if i < len(kids) and _leaf_matches(node, kids[i]):
                return {i + 1}
            return set()
        if k == "nt":
            if i < len(kids) and not kids[i].symbol.is_terminal and _sym_name(kids[i]) == f"<{node[1]}>":
                return {i + 1}
            return set()
        if k == "seq":
            cur = {i}
            for c in node[1]:
                nxt: set[int] = set()
                for p in cur:
                    nxt |= self._match(c, kids, p)
                cur = nxt
                if not cur:
                    break
            return cur
        if k == "alt":
            out: set[int] = set()
            for c in node[1]:
                out |= self._match(c, kids, i)
            return out
        if k == "opt":
            return {i} | self._match(node[1], kids, i)
        if k in ("star", "plus", "rep", "crep"):
            lo, hi = {"star": (0, None), "plus": (1, None), "crep": (0, None)}.get(k, (node[2] if k == "rep" else 0, node[3] if k == "rep" else None))
            cur = {i}
            cnt = 0
            while cnt < lo:
                nxt = set()
                for p in cur:
                    nxt |= self._match(node[1], kids, p)
                cur = nxt
                cnt += 1
                if not cur:
                    return set()
            out = set(cur)
            limit = (len(kids) + 2) if hi is None else hi
            while cnt < limit and cur:
                nxt = set()
                for p in cur:
                    nxt |= self._match(node[1], kids, p)
                if nxt <= out and hi is None:
                    break
                cur = nxt
                out |= nxt
                cnt += 1
            return out
        raise ValueError(k)


_RX_CACHE: dict[Any, list[str]] = {}


def _cat(a: set[str], b: Iterable[str], L: int, cap: int) -> set[str]:
    out: set[str] = set()
    bl = list(b)
    for x in a:
        for y in bl:
            if len(x) + len(y) <= L:
                out.add(x + y)
                if len(out) > 4 * cap:
                    return out
    return out


def _sym_name(t: Any) -> str:
    return t.symbol.name() if hasattr(t.symbol, "name") else str(t.symbol)


def leaf_value(t: Any) -> Any:
    """(kind, value) of a terminal tree node, read from the symbol only."""
    v = t.symbol._value
    if v._value is None:
        return ("bits", tuple(v._trailing_bits))
    if isinstance(v._value, str):
        return ("t", v._value)
    return ("b", bytes(v._value))


def _leaf_matches(node: Node, t: Any) -> bool:
    """Content comparison: the parser hands out bytes leaves for text literals when the
    input was bytes (and vice versa), so text is compared through its UTF-8 bytes."""
    if not t.symbol.is_terminal:
        return False
    kind, val = leaf_value(t)
    k = node[0]
    if k == "bit":
        return kind == "bits" and val == (node[1],)
    if kind == "bits":
        return False
    if k == "lit":
        return (val == node[1]) if kind == "t" else (val == node[1].encode("utf-8"))
    if k == "blit":
        want = bytes.fromhex(node[1])
        return (val == want) if kind == "b" else (val.encode("latin-1", "replace") == want and all(ord(c) < 256 for c in val))
    if k in ("rx", "brx"):
        return rx_fullmatch(node[1], val if kind == "t" else val.decode("latin-1"), k == "brx")
    return False


def _child_desc(c: Any) -> str:
    if c.symbol.is_terminal:
        return repr(leaf_value(c)[1])
    return _sym_name(c)


# ---------------------------------------------------------------------------
# plain structural snapshot of a Fandango tree (used by several checks)

def shape(t: Any) -> Any:
    if t.symbol.is_terminal:
        kind, val = leaf_value(t)
        return [kind, val.hex() if isinstance(val, bytes) else (list(val) if isinstance(val, tuple) else val)]
    return [_sym_name(t), [shape(c) for c in t.children]]


def tree_units(t: Any, mode: str) -> str:
    out: list[str] = []

    def walk(x: Any) -> None:
        if x.symbol.is_terminal:
            kind, val = leaf_value(x)
            if kind == "bits":
                out.append("".join(str(b) for b in val))
            elif kind == "t":
                out.append(val if mode == "text" else _bits(val.encode("utf-8")))
            else:
                out.append(_bits(val) if mode != "text" else val.decode("latin-1"))
        else:
            for c in x.children:
                walk(c)

    walk(t)
    return "".join(out)
