#!/bin/sh
# Offline setup: make sure hypothesis is importable in /venv (no-op on this image) and build the
# C++ spec reader from the working tree's sources (used by C14; rebuilt lazily when the sources change).
set -e
cd "$(dirname "$0")"
/venv/bin/python -c "import hypothesis" 2>/dev/null || \
  /venv/bin/pip install --no-index --find-links /opt/veriftools/wheels hypothesis
/venv/bin/python -c "import hypothesis, sys; print('hypothesis', hypothesis.__version__)"
./tools/build_cpp.sh /repo
