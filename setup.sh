#!/bin/sh
# Offline setup: make sure hypothesis is importable in /venv (no-op on this image).
set -e
cd "$(dirname "$0")"
/venv/bin/python -c "import hypothesis" 2>/dev/null || \
  /venv/bin/pip install --no-index --find-links /opt/veriftools/wheels hypothesis
/venv/bin/python -c "import hypothesis, sys; print('hypothesis', hypothesis.__version__)"
