#!/bin/sh
# recheck_flaky.sh <ID> : for mutants whose full suite run missed only timing-sensitive tests, re-run exactly the
# missing tests alone (twice at most) with the patch applied; rewrite out/confirm.txt accordingly.
id=$1; wt=/tmp/wt/$id; out=$wt/out/confirm.txt
cd $wt || exit 2
git checkout -q -- .
tmp=$out.new; : > $tmp
grep "^mutant" $out | while read line; do
  i=$(echo "$line" | sed 's/mutant\([0-9]*\) .*/\1/')
  case "$line" in
    *baseline_rc=0*) echo "$line" >> $tmp; continue;;
  esac
  miss=$(grep "NOT PASSING" $wt/out/baseline$i.txt | sed 's/.*NOT PASSING: //')
  n=$(echo "$miss" | grep -c .)
  if [ "$n" -eq 0 ] || [ "$n" -gt 3 ]; then echo "$line" >> $tmp; continue; fi
  git apply $wt/out/mutant$i.diff || { echo "$line" >> $tmp; continue; }
  ok=1
  for t in $miss; do
    f=$(echo $t | sed 's/^tests\.\([a-z_]*\)\..*/tests\/\1.py/'); k=$(echo $t | sed 's/.*:://')
    pass=0
    for try in 1 2; do
      if PYTHONPATH=$wt/src /venv/bin/python -m pytest -q -p no:cacheprovider --timeout=900 $f -k "$k" >/dev/null 2>&1; then pass=1; break; fi
    done
    [ $pass -eq 1 ] || ok=0
  done
  git checkout -q -- .
  if [ $ok -eq 1 ]; then echo "$line" | sed 's/baseline_rc=1/baseline_rc=0 (missing tests passed when re-run alone)/' >> $tmp; else echo "$line" >> $tmp; fi
done
mv $tmp $out; cat $out
