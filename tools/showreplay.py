import json,sys
sys.path.insert(0,'/verif')
from vf import spec as S
for p in sys.argv[1:]:
    d=json.load(open(p)); c=d['case']
    print('==',p); 
    if 'spec' in c: print(S.render(c['spec']))
    print({k:v for k,v in c.items() if k!='spec'})
    for m in d['msgs'][:3]: print('  ',m)
