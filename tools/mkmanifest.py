#!/usr/bin/env python3
"""Regenerate MANIFEST.json from the table below (keeps it schema-valid)."""
import json, os
HERE = os.path.dirname(os.path.dirname(os.path.abspath(__file__)))
props = [json.loads(l) for l in open(os.path.join(HERE, "properties.jsonl"))]

CHECKS = {
 "C09": dict(
   category="exploration", design_ref="3/C09", technique="property-based testing (hypothesis): bit-level reference model + metamorphic re-nesting + history independence",
   text="Generated search over leaf sequences x nestings x view histories against an independent bit-level model of tree values; every view, every subtree, every request order. Exploration is the right level: the domain is unbounded but cases cost microseconds, so tens of thousands of distinct shapes are covered per run and failures shrink to a handful of leaves.",
   note="Trusts CPython's codecs and int(); only default encodings; trees are built through the public DerivationTree/Terminal constructors."),
 "C04": dict(
   category="exploration", design_ref="3/C04", technique="property-based testing (hypothesis): generated specs x inputs (enumerated, generated, near-miss, random) against an independent derivation checker and recogniser",
   text="Every tree yielded by Grammar.parse_forest / Fandango.parse for generated grammars (text, bytes, bit-level) and inputs inside and outside the language is re-checked by a derivation checker and recogniser that share no code with Fandango; serialisation must equal the input; constraints are re-evaluated by CPython on the raw input. Exploration: thousands of (spec, input) pairs per run, inputs up to 8 characters / 4 bytes.",
   note="Trusts vf/spec.py (reference semantics) and CPython re; parser state budget hits are counted as inconclusive; constraints limited to string-level predicates on the start symbol."),
 "C05": dict(
   category="exploration", design_ref="3/C05", technique="property-based testing (hypothesis): round trip generate->parse plus independent enumeration of L(G) up to a length bound",
   text="Words from Grammar.fuzz/Fandango.fuzz and ALL words of L(G) up to 6 characters / 4 bytes from an independent enumerator (capped per spec) must be accepted by Fandango.parse with an identical serialisation and a tree the reference accepts. Completeness is demanded for words with a greedy-regex derivation (the class named in the statement); the rest is counted as set aside.",
   note="Trusts vf/spec.py enumerator/recogniser; words longer than the bound and grammars with non-ASCII text inside binary specs are not generated."),
}
NA = {}
checks = []
for p in props:
    pid = p["id"]
    if pid in CHECKS:
        c = CHECKS[pid]
        checks.append({
            "property_id": pid,
            "quick_cmd": f"./check {pid} --tier quick",
            "thorough_cmd": f"./check {pid} --tier thorough",
            "evidence_file": f"/verif/evidence/{pid}.json",
            "replay_cmd_template": f"./check {pid} --replay {{path}}",
            "engine": "vf",
            "level_claimed": {"category": c["category"], "text": c["text"], "design_ref": c["design_ref"]},
            "level_note": c["note"],
            "technique": c["technique"],
        })
    else:
        NA.setdefault(pid, "check not built yet in this round (planned, see DESIGN.md section 3); will be claimed once its machinery is committed")
m = {
 "version": 1,
 "setup_cmd": "./setup.sh",
 "hooks": {
   "guard": "FANDANGO_VERIF",
   "enable": "no source hooks are needed: the checks wrap public callables at run time and import /repo/src directly (PYTHONPATH=/repo/src)",
   "baseline_off_cmd": "python3 /verif/tools/baseline.py",
   "source_commits": [],
   "add_only": True,
 },
 "engines": [{"name": "vf", "path": "/verif/vf", "serves_properties": sorted(CHECKS), "kind_free_text": "hypothesis-driven property-based tests, stateful machines and exhaustive small-domain enumeration with independent reference models; sharded over 16 processes by ./check"}],
 "checks": checks,
 "not_applicable": [{"property_id": k, "reason": v} for k, v in sorted(NA.items()) if k not in CHECKS],
 "notes": "Every check: ./check <ID> --tier quick|thorough; exit 0 held / 1 VIOLATION / 2 harness error or inconclusive. known_findings.json lists defects (open or fixed by fix: commits in /repo).",
}
json.dump(m, open(os.path.join(HERE, "MANIFEST.json"), "w"), indent=1)
print("checks:", [c["property_id"] for c in checks])
