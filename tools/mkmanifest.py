#!/usr/bin/env python3
"""Regenerate MANIFEST.json from the table below (keeps it schema-valid)."""
import json, os
HERE = os.path.dirname(os.path.dirname(os.path.abspath(__file__)))
props = [json.loads(l) for l in open(os.path.join(HERE, "properties.jsonl"))]

CHECKS = {
 "C09": dict(
   category="exploration", design_ref="3/C09", technique="property-based testing (hypothesis): bit-level reference model + metamorphic re-nesting + history independence",
   text="Generated search over leaf sequences x nestings x view histories against an independent bit-level model of tree values; every view, every subtree, every request order. Exploration is the right level: the domain is unbounded but cases cost microseconds, so tens of thousands of distinct shapes are covered per run and failures shrink to a handful of leaves.",
   note="Trusts CPython's codecs and int(); only default encodings; trees are built through the public DerivationTree/Terminal constructors."),
 "C04": dict(
   category="exploration", design_ref="3/C04", technique="property-based testing (hypothesis): generated specs x inputs (enumerated, generated, near-miss, random) against an independent derivation checker and recogniser",
   text="Every tree yielded by Grammar.parse_forest / Fandango.parse for generated grammars (text, bytes, bit-level) and inputs inside and outside the language is re-checked by a derivation checker and recogniser that share no code with Fandango; serialisation must equal the input; constraints are re-evaluated by CPython on the raw input. Exploration: thousands of (spec, input) pairs per run, inputs up to 8 characters / 4 bytes.",
   note="Trusts vf/spec.py (reference semantics) and CPython re; parser state budget hits are counted as inconclusive; constraints limited to string-level predicates on the start symbol."),
 "C05": dict(
   category="exploration", design_ref="3/C05", technique="property-based testing (hypothesis): round trip generate->parse plus independent enumeration of L(G) up to a length bound",
   text="Words from Grammar.fuzz/Fandango.fuzz and ALL words of L(G) up to 6 characters / 4 bytes from an independent enumerator (capped per spec) must be accepted by Fandango.parse with an identical serialisation and a tree the reference accepts. Completeness is demanded for words with a greedy-regex derivation (the class named in the statement); the rest is counted as set aside.",
   note="Trusts vf/spec.py enumerator/recogniser; words longer than the bound and grammars with non-ASCII text inside binary specs are not generated."),
 "C01": dict(
   category="exploration", design_ref="3/C01", technique="property-based testing (hypothesis): independent derivation checker over Grammar.fuzz output and over every tree evaluated or emitted during generated evolutionary runs",
   text="Every tree from Grammar.fuzz (all start symbols, node budgets 0..40) and every tree handed to Evaluator.evaluate_individual or emitted by Fandango.fuzz in generated runs (constraints chosen so that repair, mutation and crossover fire) is checked by a derivation checker and a recogniser that share no code with Fandango. Exploration: thousands of distinct trees per run; failures shrink to a small spec + settings.",
   note="Trusts vf/spec.py; computed repetition counts are treated as constraints (C02); wraps Evaluator.evaluate_individual at run time (no source hook)."),
 "C02": dict(
   category="exploration", design_ref="3/C02", technique="property-based testing (hypothesis): generated constraint programs + search settings, emitted solutions re-evaluated by an independent constraint interpreter",
   text="Emitted solutions of generated runs (constraints from the C07 program generator incl. raising atoms, given in the spec / constructor / extra_constraints, and computed repetitions) are re-evaluated on a plain snapshot by vf/refconstraint.py; computed bounds are recounted. Non-trivial runs are those whose constraints reject >= 30% of plain samples.",
   note="Trusts vf/refconstraint.py; constraints whose two documented readings of and/or disagree are set aside and counted."),
 "C03": dict(
   category="exploration", design_ref="3/C03", technique="exhaustive enumeration of the (h, r) table for h, r <= 12 with hypothesis-generated mixes/orders per pair",
   text="All 168 (hard, repetition-bound) count pairs up to 12 are enumerated; per pair generated constraint mixes and declaration orders; the satisfying tree is built by construction and a fresh Evaluator must yield it the first time; short fuzz runs must deliver the requested solutions.",
   note="The tree satisfies every constraint by construction and by each constraint's own check(); thorough samples pairs up to 40."),
 "C06": dict(
   category="exploration", design_ref="3/C06", technique="property-based testing (hypothesis) with a deterministic step bound derived from a reference count of partial derivations; all strings up to length 3 per spec",
   text="Termination is decided as a bounded-step safety property: parse states admitted/created are counted at Column.add / ParseState.__init__ and compared with 300 + 30*W, W = number of partial derivations of the input computed by the reference (finite for finitely ambiguous grammars). Grammar shapes named by the property are generated deliberately; infinitely ambiguous grammars and prefix mode on recursive grammars are known findings, classified by a reference analysis.",
   note="Liveness is weakened to a step bound (max fraction of the bound used on terminating requests is reported, currently < 0.1); inputs <= 6 units; two open known findings."),
 "C07": dict(
   category="exploration", design_ref="3/C07", technique="property-based testing (hypothesis): generated constraint programs x trees against an independent interpreter of the documented semantics; lazy vs eager; API acceptance",
   text="Constraint programs generated from a grammar of the constraint sub-language (selectors . .. [] slices |..| *, any/all, exists/forall, and/or, raising atoms, no-match selectors) are evaluated on generated trees by vf/refconstraint.py and by Fandango (check(), lazy check(), Fandango.parse acceptance).",
   note="Constructs the documentation leaves undefined are not generated; cases where the two readings of and/or disagree are set aside and counted."),
 "C13": dict(
   category="exploration", design_ref="3/C13", technique="exhaustive enumeration of all 2^(n-1) fragmentations per word (n <= 7) over hypothesis-generated specs and words; metamorphic relation over cuts",
   text="For generated specs and words (in and near the language) every composition into fragments is fed through IterativeParser.consume as packetparser does; the complete parses after the last fragment must equal the one-shot result; can_continue()==False is refuted by a concrete longer word of the enumerated language.",
   note="One-shot parse is the reference (its soundness is C04); non-greedy regex words are excluded (open known finding)."),
 "C10": dict(
   category="exploration", design_ref="3/C10", technique="stateful property-based testing (hypothesis RuleBasedStateMachine) against a from-scratch structural model, plus generated operator applications on grammar trees",
   text="Histories of public tree operations (construct, add/set children, setters, copies, prefix/split, indexing, slicing, every selector class, value conversions) on a pool of live trees; after every step size/hash/equality/parent links are compared with recomputation from the structure, inputs of copying operations and of read-only accessors must keep their identity snapshot. Part B applies replace/crossover/mutation/repair and whole fuzz runs to grammar trees and checks inputs and held solutions stay unchanged.",
   note="Only detached nodes are attached (no caller-made sharing); hash collisions ignored; trees capped at 150 nodes."),
 "C12": dict(
   category="exploration", design_ref="3/C12", technique="stateful property-based testing (hypothesis RuleBasedStateMachine): parse-request histories on one spec object vs. a fresh object per request",
   text="Histories of parse-type requests (first tree, full forest, abandoned/closed generators, parse_multiple, INCOMPLETE mode, other start symbols, include_controlflow, API parse, fuzz-internal parses, edits of returned trees) on one spec object; every answer must equal the answer of a fresh object built from the same text.",
   note="Differential against a history-free run of the same code; trees compared by shape; requests over the parser budget on the fresh object are skipped."),
 "C08": dict(
   category="translation_validation", design_ref="3/C08", technique="property-based testing over generated Python programs (hypothesis AST strategies) + harvested corpus: differential of the code Fandango would run against CPython's own parse, plus a behavioural differential for function definitions",
   text="Generated Python modules (all statement/expression forms the spec language admits), the Python in the repository's own .fan files, and expressions with symbol references in where / := / {} contexts go through the real reader; the code Fandango would execute is compared AST-for-AST (language-neutral normalisation only) with CPython's parse of the original. Outcome per program: equal, rejected with an error, or violation; acceptance rate per construct is reported.",
   note="Trusts CPython ast.parse/unparse; nothing is executed except the tiny generated functions of the behavioural differential; f-strings with doubled braces are an open known finding and not generated."),
 "C11": dict(
   category="exploration", design_ref="3/C11", technique="property-based testing (hypothesis): every Evaluator.evaluate_individual return during generated runs, and a generated history of direct evaluations/edits, compared with a cache-free evaluation by separately parsed constraint objects",
   text="Each evaluation result inside generated evolutionary runs (nested quantifiers, shared symbols, computed repetitions) and in direct histories (evaluate / in-place edit / replace / crossover / copy) is compared - exact fitness, per-constraint verdicts, multiset of failing-node paths - with a fresh evaluation of a deep copy by constraint objects whose caches are emptied (every 10th time parsed brand-new).",
   note="Differential against the same code without history; RNG state is saved/restored around the reference evaluation; hash collisions are not searched for."),
 "C15": dict(
   category="exploration", design_ref="3/C15", technique="property-based testing (hypothesis): print -> read round trip on generated specs, compared on an independent IR with witness words, plus constraint verdict comparison on generated trees",
   text="Generated grammars (postfix operators over groups and over each other, all bound forms, awkward literals, bytes, regexes, parties, generators with arguments) and generated constraint programs are printed the way `fandango convert` prints them and read back; grammar IRs are compared after language-preserving normalisation, differences are decided by a witness word or an open bound that was closed; constraint verdicts are compared on generated trees.",
   note="IR extraction reads Fandango's node objects of both sides identically; one open known finding (parenthesised and/or re-read as one python expression)."),
 "C17": dict(
   category="exploration", design_ref="3/C17", technique="property-based testing (hypothesis-generated configurations) with a two-fresh-process differential: byte equality of the ordered solution and parse reports",
   text="Generated configurations (spec x settings x random seed x PYTHONHASHSEED in {0,1,12345}) are run in two fresh interpreter processes that differ in pid, address layout, start time, working directory and unrelated environment; ordered solutions (text and tree shape) and ordered parse forests must be byte-identical.",
   note="Hash seed equal inside a pair (as the statement says); rare nondeterminism below 1/cases can be missed; no shrinking (a case is a batch of 4 configurations)."),
 "C18": dict(
   category="exploration", design_ref="3/C18", technique="property-based testing (hypothesis-generated pairs of specs) with a fresh-process differential: B alone vs. B after activity on A",
   text="For generated pairs (A, B) and amounts of activity on A (construct, fuzz long enough for the adaptive tuner to grow its limits, parse), B's ordered solutions and parse results in a process that first worked on A must equal those of a process that ran B alone.",
   note="Both arms under the same hash seed; the parser cap for {n,} (observable only beyond 20 iterations) is an open known finding and probed separately."),
 "C16": dict(
   category="exploration", design_ref="3/C16", technique="property-based testing (hypothesis): generated generator specs whose functions log every call; emitted and operator-produced trees checked against the log, the recorded sources and a re-parse",
   text="Specs with constant, random, dependent (documented converter pattern) and nested generators, with constraints that make repair, mutation and crossover act on and around generated fields; every generated node of every emitted or operator-produced tree must hold a value the generator returned (log), equal the reference function of the recorded argument, and be the parse of that value; a negative class checks that out-of-rule generator values never end up substituted.",
   note="Generator functions and their log live in the spec's own python block; reference versions of the dependent generators are written in the check."),
 "C19": dict(
   category="exploration", design_ref="3/C19", technique="exhaustive enumeration of all message histories up to depth D per hypothesis-generated protocol spec, against a Brzozowski-derivative model of the message-level language",
   text="For generated protocol specs (alternatives, options, *, +, bounded repetitions, nested non-message nonterminals, same type from different senders) every history up to depth 5 (7 thorough) is built the way production builds it (predict -> mount a generated message on each offered path) and the offered (sender, recipient, type) set, the completeness flag and the mounted sequence are compared with derivatives of a reference regular expression.",
   note="Non-message nonterminals are non-recursive; unbounded repetitions over nullable bodies are excluded (C06 known finding); one open known finding (skips-open-group) is classified by the reference."),
 "C20": dict(
   category="fault_enumeration", design_ref="3/C20", technique="property-based testing (hypothesis): end-to-end protocol runs against scripted peers (valid / wrong type / violating / truncated) with generated fragmentation and arrival schedules under a harness-owned virtual clock; history invariant on the interaction tree",
   text="Whole Fandango.fuzz(mode=IO) runs on generated protocol specs; the harness plays all external parties from a generated script and delivery schedule and owns the clock of packetparser/algorithm. The resulting interaction must be a prefix of the protocol language (complete when fault-free), fuzzer messages must match the recorded send() calls one-to-one in order, remote messages must be a prefix of what each peer delivered, sent messages satisfy their constraints, and injected faults never end up accepted.",
   note="Arrival orders are logical (virtual clock), no OS threads; loops are bounded to 2 iterations to keep runs short (unbounded forms are covered by C19)."),
 "C14": dict(
   category="translation_validation", design_ref="3/C14", technique="differential testing of the two spec readers over the repository's .fan files, hypothesis-generated specs with generated python blocks, and generated perturbations; parse-tree and extracted-code equality",
   text="Each text is read with Fandango.parser='cpp' (compiled from the working tree's C++ sources) and ='python'; both must reject, or both accept with identical parse trees (context classes, token types, text of real tokens) and identical extracted python code. Everything downstream is computed from that tree by the same Python code.",
   note="The C++ reader is built by tools/build_cpp.sh from the working tree (content-hashed under /verif/.build); synthetic INDENT/DEDENT/NEWLINE/EOF token text is ignored; error messages are not compared."),
}
NA = {}
# additions made while strengthening the checks against the seeded changes (DESIGN.md 9.6)
EXTRA = {
 "C02": " Families with the bound's symbol recurring after the repetition are included.",
 "C03": " Iteration counts 0..3 and records that skip the repetition are generated; at run level every tree the evaluator yields as a solution must reach the caller (small node budgets).",
 "C04": " Inputs are also handed over as DerivationTrees (one leaf / one leaf per bit) and must be answered like the plain value.",
 "C05": " Words up to 8 characters; a directed family (one repeated nonterminal entered at several offsets through prefix chains); one object parses the text form before the bytes form; generated trees are handed to parse() as trees.",
 "C06": " Two directed families with a fixed bound: x{n,} over an empty-deriving operand and a computed repetition under left recursion; requests whose derived bound exceeds 80 000 states are skipped and counted.",
 "C07": " A directed family quantifies over a symbol with several instances and reaches the bound symbol only through a path.",
 "C08": " Concrete syntax beyond ast.unparse: f-strings with every prefix and escape sequences; top-level comparison constraints in ten shapes, whose verdicts on all nine words of a fixed grammar are compared with CPython's evaluation of the same text.",
 "C11": " The direct history includes in-place edits that keep the node count; an exception on the long-lived side is an answer and must be matched by the fresh side.",
 "C12": " Edits of returned trees include terminal leaves and read-only marks; every fourth machine works on a computed-repetition spec with hook-in parent requests.",
 "C13": " Regex alphabets are read off the pattern; non-ASCII regexes are generated.",
 "C14": " A lexer-state family concatenates f-strings (all prefixes, escapes, unmatched brackets), multi-line brackets and blocks in any order.",
 "C15": " Literals with the text of one of the spec's regexes; directed slice selectors with zero/omitted bounds.",
 "C16": " Families with two-argument generators, partial generators and constraints on sub-symbols of a generated field; every dependent field is compared with a reference function of the recorded arguments.",
 "C17": " Ambiguous grammars (up to six derivations per word): the order of the forest is part of the result.",
 "C18": " Orders: A then B, B constructed before A's activity (strict comparison also beyond 20 iterations), A's generator suspended while B runs; a name-space channel (A's python code defines names B uses).",
 "C19": " Open-ended repetitions {n,} and the same sender addressing two recipients with one message type are generated; completeness of the empty history is judged.",
 "C20": " Peers may pipeline (several remote messages on the wire, fragments of two parties interleaved); directed protocol shapes; message types of which one is a prefix of another; valid remote data must not be rejected (time-out, unexpected party, unparsable) in a fault-free run.",
}
EXTRA2 = {
 "C01": " Families: computed repetitions whose symbol also occurs outside the repetition (with searches long enough for crossover followed by repair), nested equality targets, the same operator nested in itself.",
 "C02": " Atoms include python expressions (not comparisons) that raise for some matches only.",
 "C04": " A bracket family (same operator nested in itself, all balanced strings up to 6 characters); bytes regexes with \\w, \\s, (?i), judged with bytes-pattern semantics.",
 "C05": " Words that Fandango generates but the reference rejects must still be parsed back; non-ASCII text behind binary material.",
 "C07": " The spec used for API acceptance defines module-level names that coincide with quantifier variables.",
 "C08": " Non-simple annotated assignments, one-element tuple subscripts, conditional expressions next to and/or/comparisons.",
 "C10": " Part B includes computed repetitions with siblings behind them; part A includes terminals spelled like nonterminals and 'twin' trees that differ only in the kind of such leaves.",
 "C12": " Every fifth machine works on a binary spec asked with bytes and with text inputs.",
 "C13": " Regexes whose complete match can be extended behind a separator; multi-byte text literals inside binary grammars.",
 "C16": " The direct operator history starts from a parsed tree when the spec's constraints admit one.",
 "C17": " Existential constraints that fail for several candidates.",
}
EXTRA3 = {
 "C03": " Layouts in which the length field is the last child of an earlier sibling subtree; constraints over symbols absent from the satisfying tree; a constructed word that is not parsed or a constraint that rejects the constructed tree is a violation.",
 "C15": " Specs sliced to one party (convert --party) are printed, re-read and compared with a witness word.",
 "C19": " Messages between two external parties (cut out when the spec is loaded) are generated inside sequences; the reference projects them away.",
 "C20": " Directed shapes start with a valid, pipelined remote message.",
}
for k, v in EXTRA.items():
    CHECKS[k]["text"] += v
for k, v in EXTRA3.items():
    CHECKS[k]["text"] += v
for k, v in EXTRA2.items():
    CHECKS[k]["text"] += v

checks = []
for p in props:
    pid = p["id"]
    if pid in CHECKS:
        c = CHECKS[pid]
        checks.append({
            "property_id": pid,
            "quick_cmd": f"./check {pid} --tier quick",
            "thorough_cmd": f"./check {pid} --tier thorough",
            "evidence_file": f"/verif/evidence/{pid}.json",
            "replay_cmd_template": f"./check {pid} --replay {{path}}",
            "engine": "vf",
            "level_claimed": {"category": c["category"], "text": c["text"], "design_ref": c["design_ref"]},
            "level_note": c["note"],
            "technique": c["technique"],
        })
    else:
        NA.setdefault(pid, "check not built yet in this round (planned, see DESIGN.md section 3); will be claimed once its machinery is committed")
m = {
 "version": 1,
 "setup_cmd": "./setup.sh",
 "hooks": {
   "guard": "FANDANGO_VERIF",
   "enable": "no source hooks are needed: the checks wrap public callables at run time and import /repo/src directly (PYTHONPATH=/repo/src)",
   "baseline_off_cmd": "python3 /verif/tools/baseline.py",
   "source_commits": [],
   "add_only": True,
 },
 "engines": [{"name": "vf", "path": "/verif/vf", "serves_properties": sorted(CHECKS), "kind_free_text": "hypothesis-driven property-based tests, stateful machines and exhaustive small-domain enumeration with independent reference models; sharded over 16 processes by ./check"}],
 "checks": checks,
 "not_applicable": [{"property_id": k, "reason": v} for k, v in sorted(NA.items()) if k not in CHECKS],
 "notes": "Every check: ./check <ID> --tier quick|thorough; exit 0 held / 1 VIOLATION / 2 harness error or inconclusive. known_findings.json lists defects (open or fixed by fix: commits in /repo).",
}
json.dump(m, open(os.path.join(HERE, "MANIFEST.json"), "w"), indent=1)
print("checks:", [c["property_id"] for c in checks])
