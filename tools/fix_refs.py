#!/usr/bin/env python3
"""Fill in / refresh the commit hashes of fixed findings in known_findings.json from the fix: commits in /repo."""
import json, subprocess
SUBJ = {
 ("C09","latin1-flush"): "str() of text followed by bits",
 ("C09","nested-bitrun"): "tree value folds over the leaves",
 ("C05","nullable-earley"): "parser advances states over nullable",
 ("C05","empty-regex"): "parser accepts an empty match",
 ("C05","utf8-literal-in-binary"): "parser matches text literals against binary",
 ("C01","insert-before-terminal"): "repetition repair sees the terminal",
 ("C03","rounding"): "scores exactly 1.0",
 ("C12","truncated-cache"): "parse cache only serves forests",
 ("C12","controlflow-hit"): "parse cache only serves forests",
 ("C07","raising-comparison"): "a comparison whose side cannot be evaluated",
 ("C07","index-crash"): "a selector index that does not exist makes the constraint fail",
 ("C07","slice-start"): "selector slices with an omitted start",
 ("C07","comprehension-scope"): "visible inside comprehensions",
 ("C07","quantifier-index-crash"): "in the range of a quantifier",
 ("C10","slice-reparents"): "slicing a tree does not re-parent",
 ("C08","fstring-whitespace"): "f-strings in a spec keep their literal text",
 ("C08","fstring-quotes"): "f-strings in a spec keep their literal text",
 ("C08","chained-comparison"): "chained comparison in a constraint",
 ("C08","default-params"): "parameters with defaults stay positional",
 ("C08","lambda"): "lambda expressions in a spec are rejected",
 ("C15","grouping"): "printed repetitions keep their grouping",
 ("C15","open-bound"): "printed repetitions keep their grouping",
 ("C15","generator-args"): "printed generators name the symbols",
 ("C15","quantifier-star"): "printed quantifiers and len",
 ("C15","len-star"): "printed quantifiers and len",
 ("C08","not-comparison"): "negates the comparison, as in Python",
 ("C18","repetition-cap-leak"): "every run starts from the default repetition cap",
}
log = subprocess.check_output(["git","-C","/repo","log","--format=%h %s"]).decode().splitlines()
k = json.load(open("/verif/known_findings.json"))
for f in k["findings"]:
    key = (f["property"], f["key"])
    if f["status"] == "fixed" and key in SUBJ:
        hits = [l.split()[0] for l in log if SUBJ[key] in l]
        assert len(hits) == 1, (key, hits)
        f["commit"] = hits[0]
json.dump(k, open("/verif/known_findings.json","w"), indent=1, ensure_ascii=False)
print("ok")
