#!/bin/sh
# confirm_mutants.sh <ID> : in scratch worktree /tmp/wt/<ID>, confirm each out/mutant<i>.diff:
#   demo passes on the clean tree, fails with the patch, and the repository's suite still passes with the patch.
id=$1; wt=/tmp/wt/$id; out=$wt/out/confirm.txt; : > $out
cd $wt || exit 2
git checkout -q -- . 
for d in $wt/out/mutant*.diff; do
  i=$(basename $d .diff | sed 's/mutant//')
  [ -f $wt/out/demo$i.py ] || continue
  PYTHONPATH=$wt/src timeout 600 /venv/bin/python $wt/out/demo$i.py >/dev/null 2>&1; clean=$?
  if ! git apply $d 2>/dev/null; then echo "mutant$i apply=FAIL" >> $out; continue; fi
  PYTHONPATH=$wt/src timeout 600 /venv/bin/python $wt/out/demo$i.py >/dev/null 2>&1; mut=$?
  VERIF_REPO=$wt python3 /verif/tools/baseline.py > $wt/out/baseline$i.txt 2>&1; base=$?
  if [ $base -ne 0 ]; then
     # flaky-test filter: re-run only the tests reported missing, once
     miss=$(grep "NOT PASSING" $wt/out/baseline$i.txt | sed 's/.*NOT PASSING: //' | wc -l)
     echo "   (baseline missing=$miss, see baseline$i.txt)" >> $out
  fi
  git checkout -q -- .
  echo "mutant$i demo_clean=$clean demo_mutant=$mut baseline_rc=$base" >> $out
done
cat $out
