#!/bin/sh
# run_seeded.sh [dirs...] : run each stored seeded change against its property's check (quick tier) in a scratch
# worktree (tools/trymutant.sh), 3 at a time; results go into seeded/<dir>/meta.json (check_results) and the table
# seeded/RESULTS.md is regenerated from all meta.json files (tools/seeded_report.py)
cd /verif
mkdir -p /tmp/seeded_out
list=${@:-$(ls seeded | grep -v RESULTS)}
echo "$list" | tr ' ' '\n' | xargs -P ${PAR:-3} -I{} sh -c 'd={}; prop=$(echo $d | cut -d- -f1); tools/trymutant.sh /verif/seeded/$d/patch.diff $prop quick > /tmp/seeded_out/$d.txt 2>&1'
python3 tools/seeded_report.py $list
