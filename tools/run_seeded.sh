#!/bin/sh
# run_seeded.sh [dirs...] : run each stored seeded change against its property's check (quick tier), 4 at a time;
# one line per change in seeded/RESULTS.md
cd /verif
mkdir -p /tmp/seeded_out
list=${@:-$(ls seeded | grep -v RESULTS)}
echo "$list" | tr ' ' '\n' | xargs -P 4 -I{} sh -c 'd={}; prop=$(echo $d | cut -d- -f1); tools/trymutant.sh /verif/seeded/$d/patch.diff $prop quick > /tmp/seeded_out/$d.txt 2>&1'
{
echo "# Seeded changes vs. checks (quick tier, VERIF_SEED=${VERIF_SEED:-1})"
echo
echo "| change | property | detected | first lines |"
echo "|---|---|---|---|"
for d in $list; do
  prop=$(echo $d | cut -d- -f1)
  if grep -q "^VIOLATION" /tmp/seeded_out/$d.txt; then det=yes; elif grep -q "does not apply" /tmp/seeded_out/$d.txt; then det="n/a (patch no longer applies)"; else det=NO; fi
  first=$(grep -v "^KNOWN" /tmp/seeded_out/$d.txt | head -2 | tr '\n' ' ' | cut -c1-120 | tr '|' '/')
  echo "| $d | $prop | $det | $first |"
done
} > seeded/RESULTS.md
cat seeded/RESULTS.md
