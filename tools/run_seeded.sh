#!/bin/sh
# run_seeded.sh [ids...] : run each stored seeded mutant against its property's check (quick tier); log to /tmp/seeded_results.log
cd /verif
for d in ${@:-$(ls seeded)}; do
  prop=$(echo $d | cut -d- -f1)
  [ -f vf/checks/$(echo $prop | tr A-Z a-z).py ] || { echo "$d: no check for $prop yet"; continue; }
  echo "== $d"
  tools/trymutant.sh /verif/seeded/$d/patch.diff $prop quick 2>&1 | grep -v WARN | cut -c1-160 | head -4
done
