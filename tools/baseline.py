#!/usr/bin/env python3
"""Run the repository's pinned suite on the working tree (guard off) and compare with
/root/.vp/BASELINE.json: every stable_pass test must still pass.  Exit 0 iff so."""
import json, os, subprocess, sys, tempfile
import xml.etree.ElementTree as ET

repo = os.environ.get("VERIF_REPO", "/repo")
base = json.load(open("/root/.vp/BASELINE.json"))
out = tempfile.mktemp(suffix=".xml", dir=os.environ.get("TMPDIR", "/tmp"))
env = dict(os.environ, PYTHONPATH=os.path.join(repo, "src"))
env.pop("FANDANGO_VERIF", None)
cmd = ["/venv/bin/python", "-m", "pytest", "-ra", "-q", "-p", "no:cacheprovider", "--timeout=900",
       "--continue-on-collection-errors", f"--junitxml={out}"] + sys.argv[1:]
r = subprocess.run(cmd, cwd=repo, env=env, stdout=subprocess.PIPE, stderr=subprocess.STDOUT, text=True)
passed = set()
for tc in ET.parse(out).getroot().iter("testcase"):
    if not any(ch.tag in ("failure", "error", "skipped") for ch in tc):
        passed.add(f"{tc.get('classname')}::{tc.get('name')}")
os.remove(out)
missing = [t for t in base["stable_pass"] if t not in passed]
print(f"passed={len(passed)} stable_pass={len(base['stable_pass'])} missing={len(missing)}")
for t in missing[:40]:
    print("  NOT PASSING:", t)
if missing:
    print(r.stdout[-3000:])
sys.exit(1 if missing else 0)
