#!/usr/bin/env python3
"""survey_counters.py : list, per evidence file, the counters that stand for cases a check did NOT judge
(exceptions counted and skipped, inputs rejected, budgets hit, cases set aside).  Read them after every change."""
import glob, json, os
here = os.path.dirname(os.path.dirname(os.path.abspath(__file__)))
KEYS = ("raised", "rejected", "inconclusive", "skipped", "set_aside", "otherwise", "compared_by")
for fn in sorted(glob.glob(os.path.join(here, "evidence", "C*.json"))):
    d = json.load(open(fn))
    h = d.get("coverage", {}).get("class_histogram", {})
    r = {k: v for k, v in h.items() if any(x in k for x in KEYS) and not k.endswith(":rejected")}
    print(os.path.basename(fn)[:-5], d.get("coverage", {}).get("evaluations"), r or "")
