#!/bin/sh
# build_cpp.sh [repo] : build the C++ spec reader from <repo>'s sources into <verif>/.build/cpp/<content-hash>/
# (<verif> = the checkout this script belongs to)
# prints the directory that contains sa_fandango_cpp_parser*.so
set -e
repo=${1:-/repo}
here=$(cd "$(dirname "$0")/.." && pwd)
h=$( (cd "$repo" && cat CMakeLists.txt && find src/fandango/language/cpp_parser -type f \( -name '*.cpp' -o -name '*.h' \) | sort | xargs cat) | sha256sum | cut -c1-16)
out=$here/.build/cpp/$h
if ls "$out"/sa_fandango_cpp_parser*.so >/dev/null 2>&1; then echo "$out"; exit 0; fi
mkdir -p "$out/build"
cd "$out/build"
cmake -S "$repo" -B . -DSKBUILD_PROJECT_NAME=fandango -DSKBUILD_PROJECT_VERSION=0.0.0 -DPython3_EXECUTABLE=/venv/bin/python \
      -DCMAKE_BUILD_TYPE=Release -DCMAKE_INTERPROCEDURAL_OPTIMIZATION=FALSE >/dev/null
make -j16 >/dev/null 2>&1
cp sa_fandango_cpp_parser*.so "$out/"
cd "$out" && rm -rf build
# keep only the two most recent builds
ls -dt "$here"/.build/cpp/*/ | tail -n +5 | xargs -r rm -rf
echo "$out"
