#!/usr/bin/env python3
"""seeded_report.py [dirs...] : fold /tmp/seeded_out/<dir>.txt (output of tools/trymutant.sh) into
seeded/<dir>/meta.json and regenerate seeded/RESULTS.md from all meta.json files."""
import json, os, re, subprocess, sys

os.chdir("/verif")
head = subprocess.run(["git", "-C", "/repo", "rev-parse", "--short", "HEAD"], capture_output=True, text=True).stdout.strip()
vhead = subprocess.run(["git", "rev-parse", "--short", "HEAD"], capture_output=True, text=True).stdout.strip()
for d in sys.argv[1:]:
    p = f"/tmp/seeded_out/{d}.txt"
    if not os.path.exists(p):
        continue
    txt = open(p).read()
    lines = [l for l in txt.splitlines() if re.match(r"VIOLATION|HARNESS|patch does not apply|C\d\d \w+ seed=", l)]
    if "patch does not apply" in txt:
        det = "n/a"
    elif any(l.startswith("VIOLATION") for l in lines):
        det = "yes"
    elif any("seed=" in l for l in lines):
        det = "no"
    else:
        det = "error"
    mp = f"seeded/{d}/meta.json"
    meta = json.load(open(mp))
    key = "check_results" if os.environ.get("VERIF_SEED", "1") == "1" else "check_results_seed" + os.environ["VERIF_SEED"]
    meta[key] = {"check": d.split("-")[0], "tier": "quick", "seed": int(os.environ.get("VERIF_SEED", "1")),
                             "detected": det, "repo_head": head, "verif_head_before_run": vhead,
                             "summary": next((l for l in lines if "seed=" in l), lines[0] if lines else "")[:200]}
    json.dump(meta, open(mp, "w"), indent=1)
rows = []
for d in sorted(os.listdir("seeded")):
    mp = f"seeded/{d}/meta.json"
    if not os.path.exists(mp):
        continue
    meta = json.load(open(mp))
    cr = meta.get("check_results") or {}
    what = meta.get("what_it_needs_to_manifest", "").split("\n")[0][:160].replace("|", "/")
    others = ", ".join(f"seed {k[len('check_results_seed'):]}: {v.get('detected')}" for k, v in sorted(meta.items()) if k.startswith("check_results_seed"))
    rows.append(f"| {d} | {cr.get('check', d.split('-')[0])} | {cr.get('detected', 'not run')} | {others} | {cr.get('summary', '').replace('|', '/')} | {what} |")
with open("seeded/RESULTS.md", "w") as f:
    f.write("# Seeded changes vs. checks (quick tier)\n\nEach change was produced by an independent sub-agent from the property text only, confirmed "
            "(demo passes on the clean tree, fails with the patch, repository suite still passes), and run against the property's "
            "check in a scratch worktree (tools/trymutant.sh).  `n/a` = the patch no longer applies because a later `fix:` commit rewrote the code.\n\n")
    f.write("| change | check | detected (VERIF_SEED=1) | other seeds | check summary | change (first line of the note) |\n|---|---|---|---|---|---|\n")
    f.write("\n".join(rows) + "\n")
print(open("seeded/RESULTS.md").read())
