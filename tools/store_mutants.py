#!/usr/bin/env python3
"""store_mutants.py <ID> : copy confirmed mutants from /tmp/wt/<ID>/out into /verif/seeded/<ID>-<i>/"""
import json, os, re, shutil, sys
pid = sys.argv[1]
out = f"/tmp/wt/{pid}/out"
offset = 0
if pid.startswith("R2"):
    # second round of seeded changes: stored behind the first three of the property
    pid, offset = pid[2:], 3
conf = open(f"{out}/confirm.txt").read()
for m in re.finditer(r"mutant(\d+) demo_clean=(\d+) demo_mutant=(\d+) baseline_rc=(\d+)", conf):
    i, clean, mut, base = m.group(1), int(m.group(2)), int(m.group(3)), int(m.group(4))
    d = f"/verif/seeded/{pid}-{int(i) + offset}"
    flaky_only = False
    if base != 0 and os.path.exists(f"{out}/baseline{i}.txt"):
        missing = re.findall(r"NOT PASSING: (\S+)", open(f"{out}/baseline{i}.txt").read())
        flaky_only = bool(missing) and set(missing) <= {"tests.test_grammar_coverage.GrammarCoverageTest::test_io_smtp_inputs"}
    ok = clean == 0 and mut != 0 and (base == 0 or flaky_only)
    if not ok:
        print(f"{pid}-{int(i) + offset}: NOT confirmed ({m.group(0)})")
        continue
    os.makedirs(d, exist_ok=True)
    shutil.copy(f"{out}/mutant{i}.diff", f"{d}/patch.diff")
    shutil.copy(f"{out}/demo{i}.py", f"{d}/demo.py")
    note = open(f"{out}/note{i}.txt").read().strip()
    meta_p = f"{d}/meta.json"
    meta = json.load(open(meta_p)) if os.path.exists(meta_p) else {}
    meta.update({
        "property": pid, "source": "independent sub-agent given only the property text and a scratch worktree",
        "what_it_needs_to_manifest": note,
        "confirmed": {"demo_exit_on_clean_tree": clean, "demo_exit_with_patch": mut,
                      "repository_suite_with_patch": "all 784 baseline-passing tests still pass (tools/baseline.py)" if base == 0 else
                      "783 of 784 baseline-passing tests pass; the one miss is tests/test_grammar_coverage.py::test_io_smtp_inputs, a wall-clock "
                      "sensitive socket test that also fails on the unchanged tree at the machine load of the confirmation run (load 30-60); "
                      "the sub-agent's own run at lower load reported it passing",
                      "how": "tools/confirm_mutants.sh in a scratch worktree under /tmp/wt (removed afterwards)"},
    })
    meta.setdefault("check_results", {})
    json.dump(meta, open(meta_p, "w"), indent=1)
    print(f"{pid}-{int(i) + offset}: stored")
