#!/bin/sh
# mkwt.sh <name> : scratch worktree of /repo HEAD under /tmp/wt/<name> (with the prebuilt, git-ignored artifacts copied in)
set -e
d=/tmp/wt/$1
git -C /repo worktree add --detach "$d" HEAD >/dev/null 2>&1
cp /repo/src/fandango/language/parser/sa_fandango_cpp_parser.so "$d/src/fandango/language/parser/" 2>/dev/null || true
cp /repo/tests/resources/test_libfuzzer_interface "$d/tests/resources/" 2>/dev/null || true
echo "$d"
