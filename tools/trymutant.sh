#!/bin/sh
# trymutant.sh <patch> <PROP> [tier] : apply a seeded patch to /repo, run the check, always revert.
patch=$1; prop=$2; tier=${3:-quick}
cd /repo || exit 3
if ! git diff --quiet; then echo "repo dirty"; exit 3; fi
git apply "$patch" 2>/dev/null || git apply --3way "$patch" 2>/dev/null || patch -p1 -s --fuzz=3 < "$patch" >/dev/null 2>&1 || { git checkout -- . ; git clean -fdq -- src; echo "patch does not apply"; exit 3; }
git reset -q
cd /verif
./check "$prop" --tier "$tier" 2>&1 | grep -E "VIOLATION|KNOWN|HARNESS|seed=" | head -8
rc=$?
git -C /repo checkout -- . ; git -C /repo clean -fdq -- src
