#!/bin/sh
# trymutant.sh <patch> <PROP> [tier] : apply a seeded patch to /repo, run the check, always revert.
patch=$1; prop=$2; tier=${3:-quick}
cd /repo || exit 3
if ! git diff --quiet; then echo "repo dirty"; exit 3; fi
git apply "$patch" || { echo "patch does not apply"; exit 3; }
cd /verif
./check "$prop" --tier "$tier" 2>&1 | grep -E "VIOLATION|KNOWN|HARNESS|seed=" | head -8
rc=$?
git -C /repo checkout -- .
