#!/bin/sh
# trymutant.sh <patch> <PROP> [tier] : apply a seeded patch to a scratch worktree of /repo HEAD (under /tmp/wt),
# run the property's check against it (VERIF_REPO), remove the worktree.  /repo itself is not touched.
patch=$1; prop=$2; tier=${3:-quick}
wt=/tmp/wt/mut_$$
git -C /repo worktree add --detach "$wt" HEAD >/dev/null 2>&1 || exit 3
cp /repo/src/fandango/language/parser/sa_fandango_cpp_parser.so "$wt/src/fandango/language/parser/" 2>/dev/null
cd "$wt"
if git apply "$patch" 2>/dev/null || git apply --3way "$patch" 2>/dev/null || patch -p1 -s --fuzz=3 < "$patch" >/dev/null 2>&1; then
  cd /verif
  VERIF_REPO="$wt" VERIF_EVIDENCE_DIR="$wt/.evidence" ./check "$prop" --tier "$tier" 2>&1 | grep -E "VIOLATION|KNOWN|HARNESS|seed=" | cut -c1-200 | head -8
else
  echo "patch does not apply"
fi
cd /verif
git -C /repo worktree remove --force "$wt" >/dev/null 2>&1
git -C /repo worktree prune
